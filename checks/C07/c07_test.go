//go:build verif

package unused_test

// C07: U1000 is deletion-safe and catches every zero-reference object.
//
// For every package of a bounded family (see gen_test.go), for every package of the repository
// and for every package under unused/testdata the real unused.Analyzer runs in-process. Two
// oracles that share no code with package unused bracket its result:
//   1. deletion: every reported object (and what it owns) is cut out of the syntax tree; the
//      printed remainder must type-check (go/types), "imported and not used" aside;
//   2. zero-ref: every unexported package-level func / named type / var / stand-alone const
//      without any types.Info.Uses entry must be among the reported objects.

import (
	"bytes"
	"encoding/json"
	"fmt"
	"go/ast"
	"go/parser"
	"go/printer"
	"go/token"
	"go/types"
	"os"
	"path/filepath"
	"regexp"
	"runtime"
	"runtime/debug"
	"sort"
	"strings"
	"sync"
	"sync/atomic"
	"testing"
	"time"

	"golang.org/x/tools/go/ast/astutil"
	"golang.org/x/tools/go/packages"
	"honnef.co/go/tools/internal/verifx/vx"
	"honnef.co/go/tools/unused"
)

// ---------------------------------------------------------------------------------------------
// oracle 2: zero-reference objects

type c07Missing struct {
	Name, Kind string
	Alias      bool
}

var c07GeneratedRx = regexp.MustCompile(`(?m)^// Code generated .* DO NOT EDIT\.\r?$`)

// c07FileExempt: files whose objects U1000 treats as used wholesale or selectively for reasons
// outside the property (generated code, lint directives); decided from the text alone.
func c07FileExempt(f *ast.File) bool {
	for _, cg := range f.Comments {
		for _, c := range cg.List {
			if strings.HasPrefix(c.Text, "//lint:") {
				return true
			}
			if c07GeneratedRx.MatchString(c.Text) || strings.HasPrefix(c.Text, "// Created by cgo - DO NOT EDIT") {
				return true
			}
		}
	}
	return false
}

func c07ZeroRef(c *vgChecked, res unused.Result) (missing []c07Missing, candidates int) {
	usedObjs := map[types.Object]bool{}
	for _, o := range c.Info.Uses {
		usedObjs[o] = true
		switch o := o.(type) {
		case *types.Func:
			usedObjs[o.Origin()] = true
		case *types.Var:
			usedObjs[o.Origin()] = true
		}
	}
	exemptNames := map[string]bool{}
	exemptFiles := map[string]bool{}
	standalone := map[token.Pos]bool{} // name positions of stand-alone constants
	cgoExport := map[token.Pos]bool{}
	for _, f := range c.Files {
		fn := c.Fset.PositionFor(f.Pos(), false).Filename
		if c07FileExempt(f) {
			exemptFiles[fn] = true
		}
		for _, cg := range f.Comments {
			for _, cm := range cg.List {
				if strings.HasPrefix(cm.Text, "//go:linkname") {
					for _, w := range strings.Fields(cm.Text)[1:] {
						exemptNames[w] = true
					}
				}
			}
		}
		for _, d := range f.Decls {
			switch d := d.(type) {
			case *ast.GenDecl:
				if d.Tok == token.CONST && len(d.Specs) == 1 {
					vs := d.Specs[0].(*ast.ValueSpec)
					if len(vs.Names) == 1 {
						standalone[vs.Names[0].Pos()] = true
					}
				}
			case *ast.FuncDecl:
				if d.Doc != nil {
					for _, cm := range d.Doc.List {
						if strings.HasPrefix(cm.Text, "//export ") || strings.HasPrefix(cm.Text, "//go:cgo_export_") {
							cgoExport[d.Name.Pos()] = true
						}
					}
				}
			}
		}
	}
	type pk struct {
		file string
		off  int
	}
	reported := map[pk]bool{}
	for _, o := range res.Unused {
		reported[pk{o.Position.Filename, o.Position.Offset}] = true
	}
	scope := c.Pkg.Scope()
	for _, name := range scope.Names() {
		obj := scope.Lookup(name)
		if obj.Exported() || name == "_" || exemptNames[name] || usedObjs[obj] {
			continue
		}
		pos := c.Fset.PositionFor(obj.Pos(), false)
		if exemptFiles[pos.Filename] {
			continue
		}
		m := c07Missing{Name: name}
		switch o := obj.(type) {
		case *types.Func:
			if name == "init" || (name == "main" && c.Pkg.Name() == "main") || cgoExport[obj.Pos()] {
				continue
			}
			m.Kind = "func"
		case *types.TypeName:
			m.Kind = "type"
			m.Alias = o.IsAlias()
		case *types.Var:
			m.Kind = "var"
		case *types.Const:
			if !standalone[obj.Pos()] {
				continue
			}
			m.Kind = "const"
		default:
			continue
		}
		candidates++
		if !reported[pk{pos.Filename, pos.Offset}] {
			missing = append(missing, m)
		}
	}
	return missing, candidates
}

// ---------------------------------------------------------------------------------------------
// oracle 1: deletion

type c07Deletion struct {
	Sources  []vgSrcFile // printed remainder
	Removed  int
	Problems []string // reported objects the surgeon could not place (harness limits, never violations)
}

// c07Delete cuts every object of res.Unused out of c.Files (the trees are modified in place).
func c07Delete(c *vgChecked, res unused.Result) *c07Deletion {
	out := &c07Deletion{}
	type pk struct {
		file string
		off  int
	}
	want := map[pk]unused.Object{}
	for _, o := range res.Unused {
		want[pk{o.Position.Filename, o.Position.Offset}] = o
	}
	rmDecl := map[ast.Decl]bool{}
	rmSpec := map[ast.Spec]bool{}
	rmName := map[*ast.Ident]bool{} // names inside a ValueSpec / Field
	rmField := map[*ast.Field]bool{}
	rmVars := map[types.Object]bool{}
	found := map[pk]bool{}

	for _, f := range c.Files {
		fname := c.Fset.PositionFor(f.Pos(), false).Filename
		var stack []ast.Node
		ast.Inspect(f, func(n ast.Node) bool {
			if n == nil {
				stack = stack[:len(stack)-1]
				return true
			}
			stack = append(stack, n)
			id, ok := n.(*ast.Ident)
			if !ok {
				return true
			}
			key := pk{fname, c.Fset.PositionFor(id.Pos(), false).Offset}
			o, ok := want[key]
			if !ok || found[key] {
				return true
			}
			// the defining identifier of the object: walk up
			for k := len(stack) - 2; k >= 0; k-- {
				switch p := stack[k].(type) {
				case *ast.FuncDecl:
					if p.Name == id {
						rmDecl[p] = true
						found[key] = true
					}
					return true
				case *ast.TypeSpec:
					if p.Name == id {
						rmSpec[p] = true
						found[key] = true
					}
					return true
				case *ast.ValueSpec:
					for _, nm := range p.Names {
						if nm == id {
							rmName[id] = true
							found[key] = true
							if d := c.Info.Defs[id]; d != nil {
								rmVars[d] = true
							}
						}
					}
					return true
				case *ast.Field:
					// a struct field (named or embedded); parameters and interface methods are never reported
					if k == 0 {
						return true
					}
					fl, _ := stack[k-1].(*ast.FieldList)
					var st *ast.StructType
					if fl != nil && k >= 2 {
						st, _ = stack[k-2].(*ast.StructType)
					}
					if st == nil {
						return true
					}
					if len(p.Names) == 0 {
						rmField[p] = true
						found[key] = true
						return true
					}
					for _, nm := range p.Names {
						if nm == id {
							rmName[id] = true
							found[key] = true
						}
					}
					return true
				case *ast.StarExpr, *ast.SelectorExpr, *ast.IndexExpr, *ast.IndexListExpr, *ast.ParenExpr:
					// on the way from an embedded field's type name up to its Field
					continue
				default:
					_ = o
					return true
				}
			}
			return true
		})
	}
	for key, o := range want {
		if !found[key] {
			out.Problems = append(out.Problems, fmt.Sprintf("cannot place reported %s %s at %s", o.Kind, o.Name, o.Position))
		}
	}
	out.Removed = len(found)

	filterValueSpec := func(vs *ast.ValueSpec) (drop bool) {
		n := 0
		for _, nm := range vs.Names {
			if rmName[nm] {
				n++
			}
		}
		if n == 0 {
			return false
		}
		if n == len(vs.Names) {
			return true
		}
		switch {
		case len(vs.Values) == len(vs.Names):
			var names []*ast.Ident
			var vals []ast.Expr
			for i, nm := range vs.Names {
				if !rmName[nm] {
					names = append(names, nm)
					vals = append(vals, vs.Values[i])
				}
			}
			vs.Names, vs.Values = names, vals
		case len(vs.Values) == 0:
			var names []*ast.Ident
			for _, nm := range vs.Names {
				if !rmName[nm] {
					names = append(names, nm)
				}
			}
			vs.Names = names
		default: // a, b = f(): the initialiser stays for the others
			for i, nm := range vs.Names {
				if rmName[nm] {
					vs.Names[i] = ast.NewIdent("_")
				}
			}
		}
		return false
	}
	filterGenDecl := func(gd *ast.GenDecl) (empty bool) {
		if gd.Tok == token.IMPORT {
			return false
		}
		specs := gd.Specs[:0:0]
		// A constant spec without expressions repeats the preceding expression list (and type)
		// textually. Removing the object that happens to carry the list must not take the list
		// away from the constants that repeat it: the list moves to the next spec that stays.
		var carry *ast.ValueSpec
		for _, sp := range gd.Specs {
			if rmSpec[sp] {
				continue
			}
			if vs, ok := sp.(*ast.ValueSpec); ok {
				explicit := len(vs.Values) > 0
				if explicit {
					carry = nil
				}
				if filterValueSpec(vs) {
					if gd.Tok == token.CONST && explicit {
						carry = vs
					}
					continue
				}
				if gd.Tok == token.CONST && !explicit && carry != nil && len(carry.Values) == len(vs.Names) {
					vs.Type, vs.Values = carry.Type, carry.Values
					carry = nil
				}
			}
			specs = append(specs, sp)
		}
		gd.Specs = specs
		if len(specs) == 1 && gd.Tok != token.CONST {
			// keep parentheses as they are; nothing to do
		}
		return len(specs) == 0
	}
	isRemovedVar := func(e ast.Expr) bool {
		e = ast.Unparen(e)
		id, ok := e.(*ast.Ident)
		if !ok {
			return false
		}
		if o := c.Info.Uses[id]; o != nil && rmVars[o] {
			return true
		}
		return false
	}
	for _, f := range c.Files {
		astutil.Apply(f, func(cur *astutil.Cursor) bool {
			switch n := cur.Node().(type) {
			case *ast.FuncDecl:
				if rmDecl[n] {
					cur.Delete()
					return false
				}
			case *ast.GenDecl:
				if filterGenDecl(n) {
					if cur.Index() >= 0 {
						cur.Delete()
						return false
					}
				}
			case *ast.DeclStmt:
				if gd, ok := n.Decl.(*ast.GenDecl); ok && filterGenDecl(gd) {
					if cur.Index() >= 0 {
						cur.Delete()
					} else {
						cur.Replace(&ast.EmptyStmt{Semicolon: n.Pos()})
					}
					return false
				}
			case *ast.StructType:
				if n.Fields != nil {
					list := n.Fields.List[:0:0]
					for _, fd := range n.Fields.List {
						if rmField[fd] {
							continue
						}
						if len(fd.Names) > 0 {
							var names []*ast.Ident
							for _, nm := range fd.Names {
								if !rmName[nm] {
									names = append(names, nm)
								}
							}
							if len(names) == 0 {
								continue
							}
							fd.Names = names
						}
						list = append(list, fd)
					}
					n.Fields.List = list
				}
			case *ast.AssignStmt:
				if n.Tok == token.DEFINE {
					break
				}
				hit := false
				for i, l := range n.Lhs {
					if isRemovedVar(l) {
						n.Lhs[i] = ast.NewIdent("_")
						hit = true
					}
				}
				if hit && n.Tok != token.ASSIGN {
					n.Tok = token.ASSIGN // wo += e  ->  _ = e
				}
			case *ast.IncDecStmt:
				if isRemovedVar(n.X) {
					if cur.Index() >= 0 {
						cur.Delete()
					} else if fs, ok := cur.Parent().(*ast.ForStmt); ok && fs.Post == n {
						fs.Post = nil
					} else {
						cur.Replace(&ast.EmptyStmt{Semicolon: n.Pos()})
					}
					return false
				}
			case *ast.RangeStmt:
				if n.Tok == token.ASSIGN {
					if n.Key != nil && isRemovedVar(n.Key) {
						n.Key = ast.NewIdent("_")
					}
					if n.Value != nil && isRemovedVar(n.Value) {
						n.Value = ast.NewIdent("_")
					}
				}
			}
			return true
		}, nil)
	}
	for _, f := range c.Files {
		f.Comments = nil
		var buf bytes.Buffer
		if err := printer.Fprint(&buf, c.Fset, f); err != nil {
			out.Problems = append(out.Problems, "print: "+err.Error())
			continue
		}
		out.Sources = append(out.Sources, vgSrcFile{Name: c.Fset.PositionFor(f.Pos(), false).Filename, Src: buf.String()})
	}
	return out
}

// c07Recheck type-checks sources; returns the errors that are not "imported and not used".
func c07Recheck(pkgPath string, srcs []vgSrcFile, imp types.Importer, goVersion string) []string {
	fset := token.NewFileSet()
	var afs []*ast.File
	for _, f := range srcs {
		af, err := parser.ParseFile(fset, f.Name, f.Src, parser.SkipObjectResolution)
		if err != nil {
			return []string{"parse: " + err.Error()}
		}
		afs = append(afs, af)
	}
	var errs []string
	conf := types.Config{Importer: imp, GoVersion: goVersion, Sizes: types.SizesFor("gc", "amd64"),
		Error: func(err error) {
			msg := err.Error()
			if strings.Contains(msg, "imported and not used") || (strings.Contains(msg, "imported as") && strings.Contains(msg, "and not used")) {
				return
			}
			errs = append(errs, msg)
		}}
	conf.Check(pkgPath, fset, afs, nil)
	return errs
}

// ---------------------------------------------------------------------------------------------
// one generated package

type c07Case struct {
	Spec   *vgSpec      `json:"spec,omitempty"`
	GI     *vgGISpec    `json:"gi,omitempty"`
	Local  *vgLocalSpec `json:"local,omitempty"`
	SP     *vgSPSpec    `json:"sp,omitempty"`
	BA     *vgBASpec    `json:"ba,omitempty"`
	EC     *vgECSpec    `json:"ec,omitempty"`
	Corpus string       `json:"corpus,omitempty"`
	PkgID  string       `json:"pkg,omitempty"`
	Source string       `json:"source,omitempty"`
}

type c07Stats struct {
	pkgs, objects, unusedObjs, quietObjs, deletions, zeroCand, nontrivial atomic.Int64
	typeErr, corpusPkgs                                                   atomic.Int64
}

func c07NontrivialSpec(s *vgSpec, res unused.Result) bool {
	// a reported object that owns or uses something
	byName := map[string]int{}
	for i, o := range s.Objs {
		if !vgIsMethod(o.K) {
			byName[s.name(i)] = i
		}
	}
	for _, u := range res.Unused {
		if u.Kind == "field" {
			continue
		}
		i, ok := byName[u.ShortName]
		if !ok {
			if u.Kind == "func" && (u.ShortName == "m" || u.ShortName == "M") {
				return true // a method uses its receiver type
			}
			continue
		}
		switch s.Objs[i].K {
		case vkStruct, vkIface, vkGType, vkGroup:
			return true
		}
		for _, e := range s.Edges {
			if e.From == i {
				return true
			}
		}
	}
	return false
}

func c07RunSpec(res *vx.Result, st *c07Stats, s *vgSpec) {
	c07RunSource(res, st, s.Key(), vgFileText("p", s.Render(nil)), s, nil)
}

// c07RunGI judges one package of the generic-type/interface family.
func c07RunGI(res *vx.Result, st *c07Stats, g *vgGISpec) {
	c07RunSource(res, st, g.Key(), g.Source(), nil, g)
}

// c07RunSP judges one package of the family of interfaces with identical printed form.
func c07RunSP(res *vx.Result, st *c07Stats, sp *vgSPSpec) {
	c07RunSource(res, st, sp.Key(), vgFileText("p", sp.Decls()), nil, nil, nil, sp)
}

// c07RunLocal judges one package of the local-declaration family.
func c07RunLocal(res *vx.Result, st *c07Stats, l *vgLocalSpec) {
	c07RunSource(res, st, l.Key(), l.Source(), nil, nil, l)
}

// c07RunSource applies both oracles to one generated single-file package; exactly one of s, gi is set.
func c07RunSource(res *vx.Result, st *c07Stats, key, src string, s *vgSpec, gi *vgGISpec, lo ...any) {
	var local *vgLocalSpec
	var sp *vgSPSpec
	var ba *vgBASpec
	var ec *vgECSpec
	for _, x := range lo {
		switch x := x.(type) {
		case *vgLocalSpec:
			local = x
		case *vgSPSpec:
			sp = x
		case *vgBASpec:
			ba = x
		case *vgECSpec:
			ec = x
		}
	}
	c, errs := vgCheck("p", []vgSrcFile{{"p.go", src}}, nil)
	if len(errs) > 0 {
		if st.typeErr.Add(1) <= 5 {
			res.Note("generator bug: %s does not type-check: %v\n%s", key, errs[0], src)
		}
		res.NotExhaustive("a generated package did not type-check (generator bug)")
		return
	}
	var ur unused.Result
	if msg := vx.Catch(func() {
		var err error
		ur, err = vgRunUnused(c)
		if err != nil {
			panic(err)
		}
	}); msg != "" {
		res.Violate("panic|"+key, "unused.Analyzer panicked/failed on a well-typed package: "+msg+"\n"+src, c07Case{Spec: s, GI: gi, Local: local, SP: sp, BA: ba, EC: ec, Source: src})
		return
	}
	res.Eval(1)
	st.pkgs.Add(1)
	st.objects.Add(int64(len(ur.Used) + len(ur.Unused) + len(ur.Quiet)))
	st.unusedObjs.Add(int64(len(ur.Unused)))
	st.quietObjs.Add(int64(len(ur.Quiet)))
	if len(ur.Unused) > 0 && (s == nil || c07NontrivialSpec(s, ur)) {
		st.nontrivial.Add(1)
		res.NontrivialN(1)
	}
	// oracle 2
	missing, cand := c07ZeroRef(c, ur)
	st.zeroCand.Add(int64(cand))
	for _, m := range missing {
		msg := fmt.Sprintf("unexported package-level %s %s has no reference anywhere in the package but is not reported by U1000\n%s", m.Kind, m.Name, src)
		if m.Alias {
			res.Unassert("zero-reference alias " + m.Name + " not reported in " + key + " (an alias is not a named type in the statement's wording)")
			continue
		}
		res.Violate("zeroref|"+m.Kind+"_"+m.Name+"|"+key, msg, c07Case{Spec: s, GI: gi, Local: local, SP: sp, BA: ba, EC: ec, Source: src})
	}
	// supplement (DESIGN C07, rule 10.1): a generated iota group is reported as a whole or not at all;
	// with the carried-over expression list a partial deletion would still type-check.
	for i := 0; s != nil && i < len(s.Objs); i++ {
		if s.Objs[i].K != vkGroup {
			continue
		}
		ra, rb := false, false
		for _, u := range ur.Unused {
			if u.Kind == "const" && u.Name == s.name(i) {
				ra = true
			}
			if u.Kind == "const" && u.Name == s.grpB(i) {
				rb = true
			}
		}
		if ra != rb {
			res.Violate("constgroup|"+key, fmt.Sprintf("constant group (%s, %s) is reported in part only (%s reported=%v, %s reported=%v)\n%s",
				s.name(i), s.grpB(i), s.name(i), ra, s.grpB(i), rb, src), c07Case{Spec: s, GI: gi, Local: local, SP: sp, BA: ba, EC: ec, Source: src})
		}
	}
	// oracle 1
	if len(ur.Unused) == 0 {
		return
	}
	del := c07Delete(c, ur)
	st.deletions.Add(1)
	if len(del.Problems) > 0 {
		res.Note("surgeon: %s: %v", key, del.Problems)
		res.NotExhaustive("a reported object could not be located for deletion (harness limit)")
		return
	}
	if errs := c07Recheck("p", del.Sources, nil, "go1.26"); len(errs) > 0 {
		msg := fmt.Sprintf("after removing every object U1000 reports (%s) the package no longer type-checks: %s\n--- package ---\n%s\n--- after deletion ---\n%s",
			strings.Join(vgUnusedSet(ur), ", "), strings.Join(errs, "; "), src, del.Sources[0].Src)
		res.Violate("deletion|"+key, msg, c07Case{Spec: s, GI: gi, Local: local, SP: sp, BA: ba, EC: ec, Source: src})
	}
}

// ---------------------------------------------------------------------------------------------
// corpora: the repository's packages and unused/testdata

type c07Importer map[string]*types.Package

func (m c07Importer) Import(path string) (*types.Package, error) {
	if path == "unsafe" {
		return types.Unsafe, nil
	}
	if p := m[path]; p != nil {
		return p, nil
	}
	return nil, fmt.Errorf("package %q not among the imports of the loaded package", path)
}

func c07LoadCorpus(corpus string) ([]*packages.Package, error) {
	mode := packages.NeedName | packages.NeedFiles | packages.NeedCompiledGoFiles | packages.NeedImports |
		packages.NeedTypes | packages.NeedTypesSizes | packages.NeedSyntax | packages.NeedTypesInfo | packages.NeedModule
	cfg := &packages.Config{Mode: mode, Tests: true}
	var patterns []string
	switch corpus {
	case "repo":
		cfg.Dir = vx.RepoDir()
		cfg.Env = append(os.Environ(), "GOPROXY=off")
		patterns = []string{"./..."}
	case "testdata":
		td := filepath.Join(vx.RepoDir(), "unused", "testdata")
		cfg.Dir = filepath.Join(td, "src")
		cfg.Env = append(os.Environ(), "GOPATH="+td, "GO111MODULE=off", "GOWORK=off", "GOPROXY=off")
		patterns = []string{"example.com/..."}
	default:
		return nil, fmt.Errorf("unknown corpus %q", corpus)
	}
	return packages.Load(cfg, patterns...)
}

// c07RunLoaded applies both oracles to one loaded package (any variant).
func c07RunLoaded(res *vx.Result, st *c07Stats, corpus string, p *packages.Package) (ran bool) {
	if len(p.Errors) > 0 || p.Types == nil || p.TypesInfo == nil || len(p.Syntax) == 0 || p.IllTyped {
		return false
	}
	if strings.HasSuffix(p.ID, ".test") && p.Name == "main" {
		return false // synthesized test main
	}
	for _, f := range p.Syntax {
		for _, im := range f.Imports {
			if im.Path.Value == `"C"` {
				return false
			}
		}
	}
	if len(p.CompiledGoFiles) != len(p.GoFiles) {
		return false // cgo or other generated inputs
	}
	c := &vgChecked{Fset: p.Fset, Files: p.Syntax, Pkg: p.Types, Info: p.TypesInfo}
	key := corpus + ":" + strings.ReplaceAll(p.ID, " ", "_")
	cs := c07Case{Corpus: corpus, PkgID: p.ID}
	var ur unused.Result
	if msg := vx.Catch(func() {
		var err error
		ur, err = vgRunUnused(c)
		if err != nil {
			panic(err)
		}
	}); msg != "" {
		res.Violate("panic|"+key, "unused.Analyzer panicked/failed on "+p.ID+": "+msg, cs)
		return true
	}
	res.Eval(1)
	st.pkgs.Add(1)
	st.corpusPkgs.Add(1)
	st.objects.Add(int64(len(ur.Used) + len(ur.Unused) + len(ur.Quiet)))
	st.unusedObjs.Add(int64(len(ur.Unused)))
	st.quietObjs.Add(int64(len(ur.Quiet)))
	// objects reported in files that are not part of the syntax we hold (none expected)
	missing, cand := c07ZeroRef(c, ur)
	st.zeroCand.Add(int64(cand))
	for _, m := range missing {
		if m.Alias {
			res.Unassert("zero-reference alias " + m.Name + " not reported in " + key)
			continue
		}
		res.Violate("zeroref|"+m.Kind+"_"+m.Name+"|"+key,
			fmt.Sprintf("%s: unexported package-level %s %s has no reference anywhere in the package but is not reported by U1000", p.ID, m.Kind, m.Name), cs)
	}
	if len(ur.Unused) == 0 {
		return true
	}
	if len(ur.Quiet) > 0 || len(ur.Unused) > 0 {
		st.nontrivial.Add(1)
		res.NontrivialKey(key)
	}
	imp := c07Importer{}
	for path, ip := range p.Imports {
		if ip.Types != nil {
			imp[path] = ip.Types
		}
	}
	gov := "go1.26"
	if p.Module != nil && p.Module.GoVersion != "" {
		gov = "go" + p.Module.GoVersion
	}
	del := c07Delete(c, ur)
	st.deletions.Add(1)
	if len(del.Problems) > 0 {
		res.Note("surgeon: %s: %v", key, del.Problems)
		res.Unassert("deletion not judged for " + key + ": a reported object could not be located in the syntax")
		return true
	}
	if errs := c07Recheck(p.PkgPath, del.Sources, imp, gov); len(errs) > 0 {
		// control: the untouched files, printed the same way, must type-check; otherwise the
		// harness (printing without comments, importer) is at fault, not U1000.
		var orig []vgSrcFile
		for _, fn := range p.CompiledGoFiles {
			b, err := os.ReadFile(fn)
			if err != nil {
				res.Note("control: %v", err)
				return true
			}
			orig = append(orig, vgSrcFile{Name: fn, Src: string(b)})
		}
		if cerrs := c07Recheck(p.PkgPath, orig, imp, gov); len(cerrs) > 0 {
			res.Note("control failed for %s (harness cannot re-check this package): %v", key, cerrs[0])
			res.Unassert("deletion not judged for " + key + ": the unmodified package does not re-check in the harness")
			return true
		}
		if len(errs) > 8 {
			errs = errs[:8]
		}
		res.Violate("deletion|"+key, fmt.Sprintf("%s: after removing every object U1000 reports (%s) the package no longer type-checks: %s",
			p.ID, strings.Join(vgUnusedSet(ur), ", "), strings.Join(errs, "; ")), cs)
	}
	return true
}

func c07RunCorpus(res *vx.Result, st *c07Stats, corpus string, only string) {
	pkgs, err := c07LoadCorpus(corpus)
	if err != nil {
		res.Note("corpus %s: load failed: %v", corpus, err)
		res.NotExhaustive("corpus " + corpus + " could not be loaded")
		return
	}
	sort.Slice(pkgs, func(i, j int) bool { return pkgs[i].ID < pkgs[j].ID })
	var ran, skipped, testMains atomic.Int64
	var wg sync.WaitGroup
	var next atomic.Int64
	for w := 0; w < 4; w++ {
		wg.Add(1)
		go func() {
			defer wg.Done()
			for {
				i := int(next.Add(1)) - 1
				if i >= len(pkgs) {
					return
				}
				p := pkgs[i]
				if only != "" && p.ID != only {
					continue
				}
				if c07RunLoaded(res, st, corpus, p) {
					ran.Add(1)
				} else if strings.HasSuffix(p.ID, ".test") {
					testMains.Add(1)
				} else {
					skipped.Add(1)
					res.Note("corpus %s: %s skipped (load/type errors: %d, cgo or generated inputs, or no syntax)", corpus, p.ID, len(p.Errors))
				}
			}
		}()
	}
	wg.Wait()
	res.Count("corpus_"+corpus+"_packages_checked", ran.Load())
	res.Count("corpus_"+corpus+"_packages_skipped(errors,cgo)", skipped.Load())
	res.Count("corpus_"+corpus+"_synthesized_test_mains_ignored", testMains.Load())
}

// ---------------------------------------------------------------------------------------------
// bounds

func c07Bounds() *vgBounds {
	b := &vgBounds{Forms: vgAllForms(), Kinds: vgAllKinds()}
	if vx.Thorough() {
		b.MaxN = 5
		b.MaxEdges = []int{0, -1, -1, -1, 3, 2}
		b.MaxExp = []int{0, 1, 2, 3, 1, 1}
		b.CoreFrom = 5
	} else {
		b.MaxN = 4
		b.MaxEdges = []int{0, -1, -1, -1, 2}
		b.MaxExp = []int{0, 1, 2, 1, 1}
		b.CoreFrom = 4
	}
	return b
}

func c07BoundsText(b *vgBounds) string {
	return fmt.Sprintf("objects<=%d; edges per package size %v (-1 = every subset, one form per ordered pair); exported objects per size <=%v; all %d reference forms below %d objects, the %d core forms from there on",
		b.MaxN, b.MaxEdges[1:], b.MaxExp[1:], int(vfNumForms)-1, b.CoreFrom, int(vfNumForms)-1-8)
}

// ---------------------------------------------------------------------------------------------

func TestVerifC07(t *testing.T) {
	res := vx.New("every package of the bounded declaration-graph family (one representative per renaming class), every package of the repository and of unused/testdata in every variant; non-trivial = U1000 reports at least one object that owns or uses another object (generated) / reports anything (corpora)")
	defer res.Write()
	st := &c07Stats{}

	if key, raw, ok := vx.Replay(); ok {
		var cs c07Case
		if err := json.Unmarshal(raw, &cs); err != nil {
			t.Fatalf("replay %s: %v", key, err)
		}
		if cs.Spec != nil {
			c07RunSpec(res, st, cs.Spec)
		} else if cs.BA != nil {
			c07RunSource(res, st, cs.BA.Key(), cs.BA.Source(), nil, nil, cs.BA)
		} else if cs.EC != nil {
			c07RunSource(res, st, cs.EC.Key(), vgFileText("p", cs.EC.Decls()), nil, nil, cs.EC)
		} else if cs.SP != nil {
			c07RunSP(res, st, cs.SP)
		} else if cs.Local != nil {
			c07RunLocal(res, st, cs.Local)
		} else if cs.GI != nil {
			for round := 0; round < 16; round++ { // the analyzer walks interfaces in map order
				c07RunGI(res, st, cs.GI)
			}
		} else {
			c07RunCorpus(res, st, cs.Corpus, cs.PkgID)
		}
		res.States, res.Transitions = st.pkgs.Load(), st.objects.Load()
		return
	}

	debug.SetGCPercent(800) // tiny short-lived packages: the collector would otherwise take half of the CPU
	res.SetBudget(vx.Budget(100*time.Second, 17*time.Minute))
	cpu0 := vgCPU()
	b := c07Bounds()
	var sampleN, giDone, localDone, spDone, baDone, ecDone atomic.Int64
	part := os.Getenv("VERIF_C07_PART") // development aid: "gen" or "corpora"; empty = everything
	if part == "corpora" {
		b.MaxN = 1
	}
	// The corpora spend most of their time in `go list`; they run beside the generated family.
	var corporaDone sync.WaitGroup
	if part != "gen" {
		corporaDone.Add(1)
		go func() {
			defer corporaDone.Done()
			for _, corpus := range []string{"testdata", "repo"} {
				c07RunCorpus(res, st, corpus, "")
			}
		}()
	}
	// second family first (small; must not fall victim to the budget): generic struct type x interfaces fixing its type parameter x assignments
	gis := vgGIEnumerate(3)
	if part != "corpora" {
		var next atomic.Int64
		var wg sync.WaitGroup
		for w := 0; w < runtime.GOMAXPROCS(0); w++ {
			wg.Add(1)
			go func() {
				defer wg.Done()
				for {
					i := int(next.Add(1)) - 1
					if i >= len(gis) {
						return
					}
					if res.Expired() {
						res.NotExhaustive("time budget reached in the generic-type/interface family")
						return
					}
					c07RunGI(res, st, gis[i])
					giDone.Add(1)
				}
			}()
		}
		wg.Wait()
		// third family: declarations local to a used function
		locals := vgLocalEnumerate(2)
		next.Store(0)
		for w := 0; w < runtime.GOMAXPROCS(0); w++ {
			wg.Add(1)
			go func() {
				defer wg.Done()
				for {
					i := int(next.Add(1)) - 1
					if i >= len(locals) {
						return
					}
					if res.Expired() {
						res.NotExhaustive("time budget reached in the local-declaration family")
						return
					}
					c07RunLocal(res, st, locals[i])
					localDone.Add(1)
				}
			}()
		}
		wg.Wait()
		// fourth family: interfaces with identical printed form (small; sequential)
		for _, sp := range vgSPEnumerate() {
			c07RunSP(res, st, sp)
			spDone.Add(1)
		}
		// fifth and sixth family (small; sequential)
		for _, x := range vgBAEnumerate() {
			c07RunSource(res, st, x.Key(), x.Source(), nil, nil, x)
			baDone.Add(1)
		}
		for _, x := range vgECEnumerate() {
			c07RunSource(res, st, x.Key(), vgFileText("p", x.Decls()), nil, nil, x)
			ecDone.Add(1)
		}
		lm := locals[len(locals)*2/3]
		res.Sample(map[string]any{"key": lm.Key(), "source": lm.Source()})
		mid := gis[len(gis)*3/4]
		res.Sample(map[string]any{"key": mid.Key(), "source": mid.Source()})
	}
	specs, inadm, noncanon, completed := vgRunTasks(res, b, func(s *vgSpec) {
		c07RunSpec(res, st, s)
		if n := sampleN.Add(1); n%200003 == 7 || n == 5000 {
			res.Sample(map[string]any{"key": s.Key(), "source": vgFileText("p", s.Render(nil))})
		}
	})
	res.Count("generic_interface_family_packages", giDone.Load())
	res.Count("local_declaration_family_packages", localDone.Load())
	res.Count("same_print_interface_family_packages", spDone.Load())
	res.Count("basic_alias_name_family_packages", baDone.Load())
	res.Count("embedding_cycle_family_packages", ecDone.Load())
	res.Count("generated_packages", specs)
	res.Count("generated_edge_sets_inadmissible", inadm)
	res.Count("generated_edge_sets_noncanonical(renaming)", noncanon)
	res.Bound = c07BoundsText(b) + "; " + completed
	if res.Expired() {
		res.NotExhaustive("time budget reached in the generated family: " + completed)
	}
	corporaDone.Wait()
	corpusPkgs := st.corpusPkgs.Load()
	genCPU := vgCPU() - cpu0
	res.Count("cpu_seconds_in_process(generated+corpora,without_go_list)", int64(genCPU.Seconds()))
	res.Count("corpus_package_variants", corpusPkgs)
	res.Count("objects_decided", st.objects.Load())
	res.Count("objects_reported_unused", st.unusedObjs.Load())
	res.Count("objects_quiet", st.quietObjs.Load())
	res.Count("deletions_rechecked", st.deletions.Load())
	res.Count("zero_reference_candidates", st.zeroCand.Load())
	res.Count("type_check_failures(generator bugs)", st.typeErr.Load())
	res.States = st.pkgs.Load()
	res.Transitions = st.objects.Load()
	res.Validated = st.deletions.Load()
	res.Sample(map[string]any{"corpus": "repo+testdata", "package_variants": corpusPkgs})
	t.Logf("C07: %d generated packages (%d inadmissible, %d non-canonical edge sets), %d corpus variants, %d deletions, cpu %v; %s",
		specs, inadm, noncanon, corpusPkgs, st.deletions.Load(), genCPU, completed)
}
