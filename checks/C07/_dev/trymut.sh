#!/bin/bash
# trymut.sh <diff> : apply in worktree, run unused+lintcmd tests, report
cd /var/tmp/wt-C07 || exit 2
git checkout -- . ; git apply "$1" || { echo "APPLYFAIL $1"; exit 2; }
out=$(go test ./unused/ ./lintcmd/... 2>&1); rc=$?
git checkout -- .
if [ $rc -eq 0 ]; then echo "TESTS-PASS $(basename $1)"; else echo "TESTS-FAIL $(basename $1)"; echo "$out" | grep -v "^ok" | head -8; fi
