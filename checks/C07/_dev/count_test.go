//go:build verif

package unused_test

import (
	"fmt"
	"os"
	"strconv"
	"strings"
	"testing"
	"time"
	"sync"
	"runtime"
	"sync/atomic"
)

func TestCountC07(t *testing.T) {
	b := &vgBounds{Forms: vgAllForms(), Kinds: vgAllKinds()}
	parse := func(s string) []int {
		var r []int
		for _, x := range strings.Split(s, ",") {
			n, _ := strconv.Atoi(x)
			r = append(r, n)
		}
		return r
	}
	b.MaxEdges = parse(os.Getenv("CNT_EDGES"))
	b.MaxExp = parse(os.Getenv("CNT_EXP"))
	b.MaxN = len(b.MaxEdges) - 1
	b.CoreFrom, _ = strconv.Atoi(os.Getenv("CNT_CORE"))
	tasks := vgTasks(b)
	type lvl struct{ n, k int }
	var mu sync.Mutex
	counts := map[lvl]int64{}
	var next atomic.Int64
	var wg sync.WaitGroup
	t0 := time.Now()
	for w := 0; w < runtime.GOMAXPROCS(0); w++ {
		wg.Add(1)
		go func() {
			defer wg.Done()
			for {
				i := int(next.Add(1)) - 1
				if i >= len(tasks) {
					return
				}
				var c int64
				vgExpand(b, tasks[i].Sk, tasks[i].K, func(*vgSpec) bool { c++; return true })
				mu.Lock()
				counts[lvl{tasks[i].N, tasks[i].K}] += c
				mu.Unlock()
			}
		}()
	}
	wg.Wait()
	var tot int64
	for n := 1; n <= b.MaxN; n++ {
		for k := 0; k <= n*n; k++ {
			if c, ok := counts[lvl{n, k}]; ok && c > 0 {
				fmt.Printf("n=%d e=%d: %d\n", n, k, c)
				tot += c
			}
		}
		fmt.Printf("skeletons n=%d: %d\n", n, len(vgSkeletons(b, n)))
	}
	fmt.Println("total", tot, time.Since(t0), vgCPU())
}
