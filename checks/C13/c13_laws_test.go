//go:build verif

package nilness

// C13, lattice laws: associativity, commutativity, idempotence and identity on ALL triples of
// points of the nilness lattice (the real `lattice` and its `latticeMerge` table), of
// dfa.MapLattice over keys ⊆ {0,1} and of dfa.DenseMapLattice over slices of length <= 2
// (every representation, trailing identities and nil/empty included), compared with each
// lattice's own Equals.

import (
	"encoding/json"
	"fmt"
	"testing"

	"honnef.co/go/tools/analysis/dfa"
	"honnef.co/go/tools/internal/verifx/vx"
)

type c13LawCase struct {
	Kind    string `json:"kind"` // "law"
	Lattice string `json:"lattice"`
	Law     string `json:"law"`
	A       int    `json:"a"`
	B       int    `json:"b"`
	C       int    `json:"c"`
}

type c13LawStats struct{ triples, merges int64 }

// c13Laws checks the four laws on all triples of pts. only >= 0 restricts to one triple (replay).
func c13Laws[L dfa.Semilattice[E], E any](name string, pts []E, str func(E) string, res *vx.Result, only *c13LawCase) {
	var l L
	var st c13LawStats
	merge := func(a, b E) (out E, pmsg string) {
		st.merges++
		pmsg = vx.Catch(func() { out = l.Merge(a, b) })
		return
	}
	fail := func(law string, a, b, c int, msg string) {
		cs := c13LawCase{"law", name, law, a, b, c}
		c13Violate(fmt.Sprintf("law/%s/%s/%d,%d,%d", name, law, a, b, c), fmt.Sprintf("%s lattice: %s violated: %s", name, law, msg), cs)
	}
	id := l.Ident()
	for a := range pts {
		if only != nil && a != only.A {
			continue
		}
		x := pts[a]
		// Equals must at least be reflexive for the laws to be expressible
		if !l.Equals(x, x) {
			fail("equals-reflexive", a, a, a, fmt.Sprintf("Equals(%s,%s) = false", str(x), str(x)))
		}
		if xx, p := merge(x, x); p != "" {
			fail("idempotence", a, a, a, fmt.Sprintf("Merge(%s,%s) panics: %s", str(x), str(x), p))
		} else if !l.Equals(xx, x) {
			fail("idempotence", a, a, a, fmt.Sprintf("%s ∧ %s = %s", str(x), str(x), str(xx)))
		}
		if xi, p := merge(x, id); p != "" {
			fail("identity", a, -1, -1, fmt.Sprintf("Merge(%s,Ident) panics: %s", str(x), p))
		} else if !l.Equals(xi, x) {
			fail("identity", a, -1, -1, fmt.Sprintf("%s ∧ Ident = %s", str(x), str(xi)))
		}
		if ix, p := merge(id, x); p != "" {
			fail("identity-left", a, -1, -1, fmt.Sprintf("Merge(Ident,%s) panics: %s", str(x), p))
		} else if !l.Equals(ix, x) {
			fail("identity-left", a, -1, -1, fmt.Sprintf("Ident ∧ %s = %s", str(x), str(ix)))
		}
		for b := range pts {
			if only != nil && only.B >= 0 && b != only.B {
				continue
			}
			y := pts[b]
			xy, p1 := merge(x, y)
			yx, p2 := merge(y, x)
			if p1 != "" || p2 != "" {
				fail("commutativity", a, b, -1, fmt.Sprintf("Merge(%s,%s) panics: %s%s", str(x), str(y), p1, p2))
				continue
			}
			if !l.Equals(xy, yx) {
				fail("commutativity", a, b, -1, fmt.Sprintf("%s ∧ %s = %s but %s ∧ %s = %s", str(x), str(y), str(xy), str(y), str(x), str(yx)))
			}
			if l.Equals(xy, yx) != l.Equals(yx, xy) {
				fail("equals-symmetric", a, b, -1, fmt.Sprintf("Equals(%s,%s) != Equals(%s,%s)", str(xy), str(yx), str(yx), str(xy)))
			}
			for c := range pts {
				if only != nil && only.C >= 0 && c != only.C {
					continue
				}
				z := pts[c]
				st.triples++
				yz, p3 := merge(y, z)
				if p3 != "" {
					continue // reported as a commutativity failure of (b,c)
				}
				l1, p4 := merge(x, yz)
				l2, p5 := merge(xy, z)
				if p4 != "" || p5 != "" {
					fail("associativity", a, b, c, fmt.Sprintf("Merge panics on (%s,%s,%s): %s%s", str(x), str(y), str(z), p4, p5))
					continue
				}
				if !l.Equals(l1, l2) {
					fail("associativity", a, b, c, fmt.Sprintf("%s ∧ (%s ∧ %s) = %s but (%s ∧ %s) ∧ %s = %s", str(x), str(y), str(z), str(l1), str(x), str(y), str(z), str(l2)))
				}
				// "=" in the laws is Equals ("whether a and b are the same element"): it has to be
				// an equivalence that Merge respects, or the laws above say nothing.
				if l.Equals(x, y) {
					if l.Equals(y, z) && !l.Equals(x, z) {
						fail("equals-transitive", a, b, c, fmt.Sprintf("%s = %s and %s = %s but not %s = %s", str(x), str(y), str(y), str(z), str(x), str(z)))
					}
					if xz, p6 := merge(x, z); p6 == "" && !l.Equals(xz, yz) {
						fail("equals-congruence", a, b, c, fmt.Sprintf("%s = %s but %s ∧ %s = %s and %s ∧ %s = %s", str(x), str(y), str(x), str(z), str(xz), str(y), str(z), str(yz)))
					}
				}
			}
		}
	}
	res.Eval(st.triples)
	res.Count("law_triples_"+name, st.triples)
	res.Count("law_merges", st.merges)
	c13AddStates(st.triples, st.merges, st.triples)
}

type (
	c13MapL   = dfa.MapLattice[int, uint8, c13Chain3]
	c13DenseL = dfa.DenseMapLattice[uint8, c13Chain3]
)

func c13MapPoints() []map[int]uint8 {
	// every map over keys ⊆ {0,1} with values in {1,2} (the identity 0 never appears as a
	// value: documented invariant of MapLattice), plus the two spellings of the empty map.
	pts := []map[int]uint8{nil, {}}
	for v0 := uint8(0); v0 < 3; v0++ {
		for v1 := uint8(0); v1 < 3; v1++ {
			if v0 == 0 && v1 == 0 {
				continue
			}
			m := map[int]uint8{}
			if v0 != 0 {
				m[0] = v0
			}
			if v1 != 0 {
				m[1] = v1
			}
			pts = append(pts, m)
		}
	}
	return pts
}

func c13DensePoints() [][]uint8 {
	pts := [][]uint8{nil, {}}
	for a := uint8(0); a < 3; a++ {
		pts = append(pts, []uint8{a})
	}
	for a := uint8(0); a < 3; a++ {
		for b := uint8(0); b < 3; b++ {
			pts = append(pts, []uint8{a, b})
		}
	}
	return pts
}

// c13MapPointsOver: every map over keys ⊆ {0,1} whose values are non-identity elements
// (elems[0] is the identity), plus nil and the empty map.
func c13MapPointsOver(elems []uint8) []map[int]uint8 {
	pts := []map[int]uint8{nil, {}}
	for i0 := range elems {
		for i1 := range elems {
			if i0 == 0 && i1 == 0 {
				continue
			}
			m := map[int]uint8{}
			if i0 != 0 {
				m[0] = elems[i0]
			}
			if i1 != 0 {
				m[1] = elems[i1]
			}
			pts = append(pts, m)
		}
	}
	return pts
}

// c13DensePointsOver: every slice of length 0..2 over elems (identity included, so all
// trailing-identity representations), nil and empty.
func c13DensePointsOver(elems []uint8) [][]uint8 {
	pts := [][]uint8{nil, {}}
	for _, a := range elems {
		pts = append(pts, []uint8{a})
	}
	for _, a := range elems {
		for _, b := range elems {
			pts = append(pts, []uint8{a, b})
		}
	}
	return pts
}

func c13NilDensePoints() [][]ValueNilness {
	pts := [][]ValueNilness{nil, {}}
	for _, a := range c13AllVN() {
		pts = append(pts, []ValueNilness{a})
	}
	// length 2 over the 5 Outer points and over the diagonal
	for o1 := Nilness(0); o1 < 5; o1++ {
		for o2 := Nilness(0); o2 < 5; o2++ {
			pts = append(pts, []ValueNilness{{Outer: o1}, {Outer: o2}})
		}
	}
	return pts
}

// c13TableL: the raw 5x5 latticeMerge table as a lattice over Nilness, so the table is checked
// on its own as well as through lattice.Merge.
type c13TableL struct{}

func (c13TableL) Ident() Nilness             { return 0 }
func (c13TableL) Equals(a, b Nilness) bool   { return a == b }
func (c13TableL) Merge(a, b Nilness) Nilness { return latticeMerge[a][b] }

func c13LawsMain(t *testing.T, res *vx.Result, raw json.RawMessage) {
	var only *c13LawCase
	if raw != nil {
		var c c13LawCase
		json.Unmarshal(raw, &c)
		only = &c
	}
	want := func(name string) bool { return only == nil || only.Lattice == name }
	nstr := func(n Nilness) string { return c13NilNames[n] }
	if want("nilness-table") {
		c13Laws[c13TableL]("nilness-table", []Nilness{0, NeverNil, AlwaysNil, MaybeNilGlobal, MaybeNil}, nstr, res, only)
	}
	if want("nilness") {
		c13Laws[lattice]("nilness", c13AllVN(), c13VNStr, res, only)
	}
	if want("maplattice") {
		c13Laws[c13MapL]("maplattice", c13MapPoints(), func(m map[int]uint8) string {
			if m == nil {
				return "nil"
			}
			return fmt.Sprint(m)
		}, res, only)
	}
	if want("densemaplattice") {
		c13Laws[c13DenseL]("densemaplattice", c13DensePoints(), func(s []uint8) string {
			if s == nil {
				return "nil"
			}
			return fmt.Sprint(s)
		}, res, only)
	}
	if want("densemaplattice-nilness") {
		c13Laws[c13NilMapL]("densemaplattice-nilness", c13NilDensePoints(), c13FamNilMap().pstr, res, only)
	}
	// element lattices whose identity is not the zero value of the element type
	hex := func(pstr func(uint8) string) (func(map[int]uint8) string, func([]uint8) string) {
		return func(m map[int]uint8) string {
				if m == nil {
					return "nil"
				}
				s := "{"
				for _, k := range []int{0, 1} {
					if v, ok := m[k]; ok {
						s += fmt.Sprintf("%d:%s ", k, pstr(v))
					}
				}
				return s + "}"
			}, func(sl []uint8) string {
				if sl == nil {
					return "nil"
				}
				s := "["
				for _, v := range sl {
					s += pstr(v) + " "
				}
				return s + "]"
			}
	}
	andPts := []uint8{0xFF, 0b01, 0b10, 0b00} // closed under AND; identity first
	nzPts := []uint8{c13NZBot, 0, 1, c13NZTop}
	mstr, sstr := hex(c13AndStr)
	if want("and-elements") {
		c13Laws[c13And]("and-elements", andPts, c13AndStr, res, only)
	}
	if want("maplattice-and") {
		c13Laws[dfa.MapLattice[int, uint8, c13And]]("maplattice-and", c13MapPointsOver(andPts), mstr, res, only)
	}
	if want("densemaplattice-and") {
		c13Laws[c13AndMapL]("densemaplattice-and", c13DensePointsOver(andPts), sstr, res, only)
	}
	mstr, sstr = hex(c13NZStr)
	if want("flatnz-elements") {
		c13Laws[c13FlatNZ]("flatnz-elements", nzPts, c13NZStr, res, only)
	}
	if want("maplattice-flatnz") {
		c13Laws[dfa.MapLattice[int, uint8, c13FlatNZ]]("maplattice-flatnz", c13MapPointsOver(nzPts), mstr, res, only)
	}
	if want("densemaplattice-flatnz") {
		c13Laws[c13NZMapL]("densemaplattice-flatnz", c13DensePointsOver(nzPts), sstr, res, only)
	}
	// the points really are what the statement names
	if only == nil {
		if n := len(c13AllVN()); n != 25 {
			res.NotExhaustive(fmt.Sprintf("nilness lattice has %d points, expected 25", n))
		}
		if len(latticeMerge) != 5 || len(latticeMerge[0]) != 5 {
			res.NotExhaustive("latticeMerge is not 5x5 any more; the point list of the harness is stale")
		}
		res.Sample(map[string]any{"kind": "law", "lattice": "nilness", "points": 25, "triples": 15625,
			"example": "(Never,Always) ∧ ((_,Global) ∧ (Always,Maybe)) = ((Never,Always) ∧ (_,Global)) ∧ (Always,Maybe)"})
	}
}
