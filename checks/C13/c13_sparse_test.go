//go:build verif

package nilness

// C13, sparse part: the real sparse.Instance.Forward on real IR. Small functions (loops with
// 1-3 variables, nested loops, nested ifs) are generated, built with the real IR builder, and
// analysed with transfer families keyed by instruction kind that map only the instruction's
// own value (sign powerset, constants mod 3 on a flat lattice, nilness on the real nilness
// lattice); parameters and constant operands get their facts through Instance.Set, as the API
// documents. The result is compared, value by value, with a round-robin Kleene iteration over
// the def-use equations written here.
//
// Worklist order. Forward takes "some" key of a Go map as the next instruction; that order
// cannot be controlled in the ordinary build, where each case is therefore run once and only
// the (order-independent) final result is asserted. To explore orders, the harness builds a
// second test binary at check time in which the CURRENT analysis/dfa/sparse/dfa.go is overlaid
// by a mechanically rewritten copy (the one `for instr = range worklist { break }` becomes a
// call of a chooser, see sparse_pick.go) and enumerates, per case, two baseline orders (lowest
// / highest instruction ID first) and every run that deviates from the baseline at up to D
// steps. If the pattern is not found exactly once the exploration is skipped with a note.

import (
	"bytes"
	"encoding/json"
	"fmt"
	"go/ast"
	"go/parser"
	"go/token"
	"go/types"
	"os"
	"os/exec"
	"path/filepath"
	"regexp"
	"runtime"
	"slices"
	"strings"
	"sync"
	"sync/atomic"
	"testing"
	"time"

	"honnef.co/go/tools/analysis/dfa"
	"honnef.co/go/tools/analysis/dfa/sparse"
	"honnef.co/go/tools/go/ir"
	"honnef.co/go/tools/go/ir/irutil"
	"honnef.co/go/tools/internal/verifx/vx"
)

// ---------------------------------------------------------------------------------------------
// program generator

type c13Prog struct {
	Kind  string  `json:"kind"`  // "int" | "ptr"
	Shape string  `json:"shape"` // see c13Shapes
	NV    int     `json:"nv"`    // number of variables (1..3)
	S     [][]int `json:"s"`     // per hole: statement indices into the menu of (Kind, NV)
}

func (p c13Prog) id() string {
	return fmt.Sprintf("%s-%s-nv%d-s%v", p.Kind, p.Shape, p.NV, p.S)
}

var c13IntMenu = []string{
	"x = x + 1", "x = -x", "x = x * x", "x = a", "x = 0", "x = x - b", // nv >= 1
	"y = x", "x = y", "x = x + y", "y = y - 1", "x, y = y, x", "y = x * y", // nv >= 2
	"z = x", "x = z", "z = z + y", "y = z", "x, y, z = y, z, x", // nv >= 3
}
var c13PtrMenu = []string{
	"x = nil", "x = new(int)", "x = G", "x = p", "x = F()", "x = N(x)", // nv >= 1
	"y = x", "x = y", "x, y = y, x", "y = new(int)", "x = J(x, y)", "y = J(y, G)", // nv >= 2
	"z = x", "x = z", "y = z", "x, y, z = y, z, x", "z = J(z, N(y))", // nv >= 3
}
var c13MenuSize = map[string][4]int{"int": {0, 6, 12, 17}, "ptr": {0, 6, 12, 17}}

// shape -> number of holes
var c13Shapes = []struct {
	name  string
	holes int
	body  string // %[1]s.. holes
}{
	{"loop", 1, "for c() {\n%[1]s}\n"},
	{"loop-if", 2, "for c() {\nif c() {\n%[1]s} else {\n%[2]s}\n}\n"},
	{"loop-loop", 2, "for c() {\n%[1]sfor c() {\n%[2]s}\n}\n"},
	{"loop;loop", 2, "for c() {\n%[1]s}\nfor c() {\n%[2]s}\n"},
	{"if-if", 3, "if c() {\nif c() {\n%[1]s} else {\n%[2]s}\n} else {\n%[3]s}\n"},
}

func (p c13Prog) source(name string) string {
	menu := c13IntMenu
	if p.Kind == "ptr" {
		menu = c13PtrMenu
	}
	var holes []any
	for _, h := range p.S {
		var b strings.Builder
		for _, s := range h {
			b.WriteString(menu[s])
			b.WriteByte('\n')
		}
		holes = append(holes, b.String())
	}
	var body string
	for _, sh := range c13Shapes {
		if sh.name == p.Shape {
			body = fmt.Sprintf(sh.body, holes...)
		}
	}
	var b strings.Builder
	if p.Kind == "int" {
		fmt.Fprintf(&b, "func %s(a, b int, c func() bool) int {\nx := a\n", name)
		if p.NV >= 2 {
			b.WriteString("y := b\n")
		}
		if p.NV >= 3 {
			b.WriteString("z := 1\n")
		}
		b.WriteString(body)
		b.WriteString("r := x\n")
		if p.NV >= 2 {
			b.WriteString("r += y\n")
		}
		if p.NV >= 3 {
			b.WriteString("r += z\n")
		}
		b.WriteString("return r\n}\n")
	} else {
		fmt.Fprintf(&b, "func %s(p, q *int, c func() bool) *int {\nx := p\n", name)
		if p.NV >= 2 {
			b.WriteString("y := q\n")
		}
		if p.NV >= 3 {
			b.WriteString("var z *int\n")
		}
		b.WriteString(body)
		if p.NV >= 2 {
			b.WriteString("x = J(x, y)\n")
		}
		if p.NV >= 3 {
			b.WriteString("x = J(x, z)\n")
		}
		b.WriteString("return x\n}\n")
	}
	return b.String()
}

const c13Prelude = `package p
var G *int
func F() *int { return nil }
func N(a *int) *int { return a }
func J(a, b *int) *int { if a != nil { return a }; return b }
`

// c13Progs: every program of one kind with the given variables/shapes; holes hold 1..maxSeq statements.
func c13Progs(kind string, nvs []int, shapes []string, maxSeq int) []c13Prog {
	var out []c13Prog
	for _, nv := range nvs {
		m := c13MenuSize[kind][nv]
		var seqs [][]int
		for i := 0; i < m; i++ {
			seqs = append(seqs, []int{i})
		}
		if maxSeq >= 2 {
			for i := 0; i < m; i++ {
				for j := 0; j < m; j++ {
					seqs = append(seqs, []int{i, j})
				}
			}
		}
		for _, sh := range c13Shapes {
			if !slices.Contains(shapes, sh.name) {
				continue
			}
			idx := make([]int, sh.holes)
			for {
				p := c13Prog{Kind: kind, Shape: sh.name, NV: nv}
				for _, i := range idx {
					p.S = append(p.S, seqs[i])
				}
				out = append(out, p)
				k := sh.holes - 1
				for ; k >= 0; k-- {
					idx[k]++
					if idx[k] < len(seqs) {
						break
					}
					idx[k] = 0
				}
				if k < 0 {
					break
				}
			}
		}
	}
	return out
}

// c13Fn is a built function with its def-use system extracted.
type c13Fn struct {
	prog   c13Prog
	mode   ir.BuilderMode
	fn     *ir.Function
	instrs []ir.Instruction
	vals   []ir.Value      // value instructions in block order
	consts []*ir.Const     // distinct constant operands
	params []*ir.Parameter // the two parameters that receive entry facts
	cyclic bool            // def-use graph has a cycle
	uses   int             // sum of referrer counts
}

func c13Build(progs []c13Prog, mode ir.BuilderMode) ([]*c13Fn, error) {
	var src strings.Builder
	src.WriteString(c13Prelude)
	for i, p := range progs {
		src.WriteString(p.source(fmt.Sprintf("f%d", i)))
	}
	fset := token.NewFileSet()
	f, err := parser.ParseFile(fset, "p.go", src.String(), parser.SkipObjectResolution)
	if err != nil {
		return nil, fmt.Errorf("generated source does not parse: %v", err)
	}
	pkg, _, err := irutil.BuildPackage(&types.Config{}, fset, types.NewPackage("p", "p"), []*ast.File{f}, mode)
	if err != nil {
		return nil, fmt.Errorf("generated source does not type-check: %v", err)
	}
	var out []*c13Fn
	for i, p := range progs {
		fn := pkg.Func(fmt.Sprintf("f%d", i))
		if fn == nil || len(fn.Blocks) == 0 {
			return nil, fmt.Errorf("function f%d was not built", i)
		}
		out = append(out, c13Analyse(p, mode, fn))
	}
	return out, nil
}

func c13Analyse(p c13Prog, mode ir.BuilderMode, fn *ir.Function) *c13Fn {
	cf := &c13Fn{prog: p, mode: mode, fn: fn}
	seenConst := map[*ir.Const]bool{}
	var ops []*ir.Value
	succ := map[ir.Value][]ir.Value{}
	for _, b := range fn.Blocks {
		for _, ins := range b.Instrs {
			cf.instrs = append(cf.instrs, ins)
			if r := ins.Referrers(); r != nil {
				cf.uses += len(*r)
			}
			v, isVal := ins.(ir.Value)
			if isVal {
				cf.vals = append(cf.vals, v)
			}
			ops = ins.Operands(ops[:0])
			for _, op := range ops {
				if *op == nil {
					continue
				}
				if c, ok := (*op).(*ir.Const); ok && !seenConst[c] {
					seenConst[c] = true
					cf.consts = append(cf.consts, c)
				}
				if isVal {
					succ[*op] = append(succ[*op], v)
				}
			}
		}
	}
	for i, par := range fn.Params {
		if i < 2 {
			cf.params = append(cf.params, par)
		}
	}
	// cycle in the def-use graph (iterative colouring)
	color := map[ir.Value]int{}
	var visit func(v ir.Value) bool
	visit = func(v ir.Value) bool {
		color[v] = 1
		for _, s := range succ[v] {
			if color[s] == 1 || (color[s] == 0 && visit(s)) {
				return true
			}
		}
		color[v] = 2
		return false
	}
	for _, v := range cf.vals {
		if color[v] == 0 && visit(v) {
			cf.cyclic = true
			break
		}
	}
	return cf
}

// ---------------------------------------------------------------------------------------------
// transfer families

type c13SFam[E any] struct {
	name     string
	kind     string // program kind it applies to
	height   int
	points   []E // entry facts of a parameter; points[0] is bottom (= not Set)
	pstr     func(E) string
	constAbs func(c *ir.Const) E
	// abs computes the abstract value of a non-phi value instruction from the values of its
	// operands (monotone); ok=false: the transfer function returns no mapping.
	abs func(instr ir.Instruction, look func(ir.Value) E) (e E, ok bool)
}

const (
	sNeg  uint8 = 1
	sZero uint8 = 2
	sPos  uint8 = 4
	sAny  uint8 = 7
)

func c13SignNeg(a uint8) uint8 {
	switch a {
	case sNeg:
		return sPos
	case sPos:
		return sNeg
	}
	return a
}
func c13SignAdd(a, b uint8) uint8 {
	switch {
	case a == sZero:
		return b
	case b == sZero:
		return a
	case a == b:
		return a
	}
	return sAny
}
func c13SignMul(a, b uint8) uint8 {
	switch {
	case a == sZero || b == sZero:
		return sZero
	case a == b:
		return sPos
	}
	return sNeg
}

func c13FamSign() *c13SFam[uint8] {
	return &c13SFam[uint8]{
		name: "sign", kind: "int", height: 3, points: []uint8{0, 1, 2, 3, 4, 5, 6, 7},
		pstr: func(e uint8) string {
			s := "{"
			for i, n := range []string{"-", "0", "+"} {
				if e&(1<<i) != 0 {
					s += n
				}
			}
			return s + "}"
		},
		constAbs: func(c *ir.Const) uint8 {
			if b, ok := c.Type().Underlying().(*types.Basic); !ok || b.Info()&types.IsInteger == 0 || c.Value == nil {
				return sAny
			}
			switch v := c.Int64(); {
			case v < 0:
				return sNeg
			case v == 0:
				return sZero
			}
			return sPos
		},
		abs: func(instr ir.Instruction, look func(ir.Value) uint8) (uint8, bool) {
			switch v := instr.(type) {
			case *ir.BinOp:
				switch v.Op {
				case token.ADD:
					return sparse.MapCartesianProduct(look(v.X), look(v.Y), c13SignAdd), true
				case token.SUB:
					return sparse.MapCartesianProduct(look(v.X), sparse.MapSet(look(v.Y), c13SignNeg), c13SignAdd), true
				case token.MUL:
					return sparse.MapCartesianProduct(look(v.X), look(v.Y), c13SignMul), true
				}
				return sAny, true
			case *ir.UnOp:
				if v.Op == token.SUB {
					return sparse.MapSet(look(v.X), c13SignNeg), true
				}
				return sAny, true
			case *ir.Phi:
				panic("phi handed to the transfer function")
			case ir.Value:
				return sAny, true
			}
			return 0, false
		},
	}
}

// constants modulo 3 on the flat lattice: 0 bottom, 1..3 = residues 0..2, 255 top.
func c13FamMod3() *c13SFam[uint8] {
	arith := func(op token.Token, a, b uint8) uint8 {
		switch {
		case a == 0 || b == 0:
			return 0
		case a == c13Top || b == c13Top:
			return c13Top
		}
		x, y := int(a-1), int(b-1)
		var r int
		switch op {
		case token.ADD:
			r = x + y
		case token.SUB:
			r = x - y + 3
		case token.MUL:
			r = x * y
		}
		return uint8(r%3) + 1
	}
	return &c13SFam[uint8]{
		name: "mod3", kind: "int", height: 2, points: []uint8{0, 1, 2, 3, c13Top},
		pstr: c13FlatStr,
		constAbs: func(c *ir.Const) uint8 {
			if b, ok := c.Type().Underlying().(*types.Basic); !ok || b.Info()&types.IsInteger == 0 || c.Value == nil {
				return c13Top
			}
			return uint8(((c.Int64()%3)+3)%3) + 1
		},
		abs: func(instr ir.Instruction, look func(ir.Value) uint8) (uint8, bool) {
			switch v := instr.(type) {
			case *ir.BinOp:
				switch v.Op {
				case token.ADD, token.SUB, token.MUL:
					return arith(v.Op, look(v.X), look(v.Y)), true
				}
				return c13Top, true
			case *ir.UnOp:
				if v.Op == token.SUB {
					return arith(token.SUB, 1, look(v.X)), true
				}
				return c13Top, true
			case *ir.Phi:
				panic("phi handed to the transfer function")
			case ir.Value:
				return c13Top, true
			}
			return 0, false
		},
	}
}

func c13FamSNil() *c13SFam[ValueNilness] {
	l := lattice{}
	bot := ValueNilness{}
	maybe := ValueNilness{MaybeNil, MaybeNil}
	return &c13SFam[ValueNilness]{
		name: "nilness", kind: "ptr", height: 6,
		points: []ValueNilness{{}, {Outer: NeverNil}, {Outer: AlwaysNil}, {Outer: MaybeNilGlobal}, {Outer: MaybeNil}},
		pstr:   c13VNStr,
		constAbs: func(c *ir.Const) ValueNilness {
			if c.IsNil() {
				return ValueNilness{AlwaysNil, AlwaysNil}
			}
			return ValueNilness{Outer: NeverNil}
		},
		abs: func(instr ir.Instruction, look func(ir.Value) ValueNilness) (ValueNilness, bool) {
			switch v := instr.(type) {
			case *ir.Alloc:
				return ValueNilness{Outer: NeverNil}, true
			case *ir.Load:
				if _, ok := v.X.(*ir.Global); ok {
					return ValueNilness{Outer: MaybeNilGlobal}, true
				}
				return maybe, true
			case *ir.Call:
				if callee := v.Call.StaticCallee(); callee != nil {
					switch callee.Name() {
					case "J": // either argument
						return l.Merge(look(v.Call.Args[0]), look(v.Call.Args[1])), true
					case "N": // the argument, known to be non-nil afterwards
						a := look(v.Call.Args[0])
						if a == bot {
							return bot, true
						}
						return ValueNilness{Inner: a.Inner, Outer: NeverNil}, true
					}
				}
				return maybe, true
			case *ir.Phi:
				panic("phi handed to the transfer function")
			case ir.Value:
				return maybe, true
			}
			return bot, false
		},
	}
}

// ---------------------------------------------------------------------------------------------
// one case

type c13SparseCase struct {
	Kind   string   `json:"kind"` // "sparse" (built-in map order) | "sparse-order" (controlled order)
	Fam    string   `json:"fam"`
	Prog   c13Prog  `json:"prog"`
	Mode   int      `json:"mode"`
	Entry  []int    `json:"entry"`            // per parameter: index into the family's points (0 = bottom, not Set)
	Policy int      `json:"policy,omitempty"` // baseline order: 0 lowest instruction ID first, 1 highest first
	Devs   [][2]int `json:"devs,omitempty"`   // (step, index among the ID-sorted candidates) taken instead of the baseline
}

func (c c13SparseCase) key() string {
	k := fmt.Sprintf("%s/%s/%s/m%d/in%v", c.Kind, c.Fam, c.Prog.id(), c.Mode, c.Entry)
	if c.Kind == "sparse-order" {
		k += fmt.Sprintf("/p%d/d%v", c.Policy, c.Devs)
	}
	return c13Key(k)
}

// c13SparseKleene: round-robin iteration from bottom over
//
//	X[param] = entry fact, X[const] = abstraction of the constant
//	X[phi]   = merge of X[edge]
//	X[v]     = abs(v, X)        for every other value instruction
func c13SparseKleene[L dfa.Semilattice[E], E any](fam *c13SFam[E], cf *c13Fn, entry []int) (x map[ir.Value]E, rounds int, herr string) {
	var l L
	x = map[ir.Value]E{}
	for i, p := range cf.params {
		if entry[i] > 0 {
			x[p] = fam.points[entry[i]]
		}
	}
	for _, c := range cf.consts {
		x[c] = fam.constAbs(c)
	}
	look := func(v ir.Value) E {
		if e, ok := x[v]; ok {
			return e
		}
		return l.Ident()
	}
	maxSweeps := len(cf.vals)*(fam.height+1) + 2
	for sweep := 0; ; sweep++ {
		if sweep > maxSweeps {
			return nil, 0, "reference iteration did not stabilise (transfer family not monotone?)"
		}
		changed := false
		for _, v := range cf.vals {
			var nv E
			if phi, ok := v.(*ir.Phi); ok {
				nv = l.Ident()
				for _, e := range phi.Edges {
					nv = l.Merge(nv, look(e))
				}
			} else {
				var ok bool
				nv, ok = fam.abs(v.(ir.Instruction), look)
				if !ok {
					continue
				}
			}
			if !l.Equals(nv, look(v)) {
				x[v] = nv
				changed = true
			}
		}
		if !changed {
			return x, rounds, ""
		}
		rounds++
	}
}

// c13SparseReal runs the real solver. chooser != nil only in the instrumented binary.
func c13SparseReal[L dfa.Semilattice[E], E any](fam *c13SFam[E], cf *c13Fn, entry []int, chooser func([]ir.Instruction) int) (ins *sparse.Instance[L, E], calls int, aborted bool, pmsg string) {
	budget := 4*(len(cf.instrs)+(fam.height+1)*cf.uses) + 16
	ins = &sparse.Instance[L, E]{Mapping: map[ir.Value]sparse.Mapping[E]{}}
	ins.Transfer = func(ins *sparse.Instance[L, E], instr ir.Instruction) []sparse.Mapping[E] {
		calls++
		if calls > budget {
			panic(c13Abort{})
		}
		e, ok := fam.abs(instr, ins.Value)
		if !ok {
			return nil
		}
		return []sparse.Mapping[E]{sparse.M(instr.(ir.Value), e, sparse.Decision{Description: "c13"})}
	}
	for i, p := range cf.params {
		if entry[i] > 0 {
			ins.Set(p, fam.points[entry[i]])
		}
	}
	for _, c := range cf.consts {
		ins.Set(c, fam.constAbs(c))
	}
	if chooser != nil {
		steps := 0
		sparse.VerifSetChooser(cf.fn, func(cands []ir.Instruction) int {
			steps++
			if steps > budget {
				panic(c13Abort{})
			}
			return chooser(cands)
		})
		defer sparse.VerifSetChooser(cf.fn, nil)
	}
	aborted, pmsg = c13Guard(func() { ins.Forward(cf.fn) })
	return
}

// c13SparseCompare returns a violation text or "".
func c13SparseCompare[L dfa.Semilattice[E], E any](fam *c13SFam[E], cf *c13Fn, entry []int, ins *sparse.Instance[L, E], x map[ir.Value]E) string {
	var l L
	look := func(v ir.Value) E {
		if e, ok := x[v]; ok {
			return e
		}
		return l.Ident()
	}
	for _, v := range cf.vals {
		if got := ins.Value(v); !l.Equals(got, look(v)) {
			return fmt.Sprintf("Value(%s = %s) = %s, least fixpoint has %s", v.Name(), v, fam.pstr(got), fam.pstr(look(v)))
		}
	}
	for _, p := range cf.params {
		if got := ins.Value(p); !l.Equals(got, look(p)) {
			return fmt.Sprintf("fact of parameter %s changed from %s to %s", p.Name(), fam.pstr(look(p)), fam.pstr(got))
		}
	}
	for _, c := range cf.consts {
		if got := ins.Value(c); !l.Equals(got, look(c)) {
			return fmt.Sprintf("fact of constant %s changed from %s to %s", c.Name(), fam.pstr(look(c)), fam.pstr(got))
		}
	}
	// the equations on the real result alone
	for _, v := range cf.vals {
		var want E
		if phi, ok := v.(*ir.Phi); ok {
			want = l.Ident()
			for _, e := range phi.Edges {
				want = l.Merge(want, ins.Value(e))
			}
		} else {
			var ok bool
			want, ok = fam.abs(v.(ir.Instruction), ins.Value)
			if !ok {
				continue
			}
		}
		if got := ins.Value(v); !l.Equals(got, want) {
			return fmt.Sprintf("Value(%s = %s) = %s does not satisfy its equation (%s)", v.Name(), v, fam.pstr(got), fam.pstr(want))
		}
	}
	return ""
}

func c13SparseDescribe[E any](fam *c13SFam[E], cf *c13Fn, c c13SparseCase) string {
	var b strings.Builder
	fmt.Fprintf(&b, "family %s, builder mode %d, parameter facts", fam.name, c.Mode)
	for i, p := range cf.params {
		fmt.Fprintf(&b, " %s=%s", p.Name(), fam.pstr(fam.points[c.Entry[i]]))
	}
	if c.Kind == "sparse-order" {
		fmt.Fprintf(&b, "; worklist order: %s ID first, deviations (step,index) %v", [...]string{"lowest", "highest"}[c.Policy], c.Devs)
	}
	b.WriteString("; function:\n")
	b.WriteString(c.Prog.source("f"))
	return b.String()
}

type c13SparseStats struct {
	cases, calls, nontrivial, cyclic, runs int64
}

func (st *c13SparseStats) flush(res *vx.Result, prefix, fam string) {
	res.Eval(st.cases)
	res.NontrivialN(st.nontrivial)
	res.Count(prefix+"_cases_"+fam, st.cases)
	res.Count(prefix+"_cases_with_def_use_cycle", st.cyclic)
	res.Count(prefix+"_solver_steps", st.calls)
	if st.runs > 0 {
		res.Count(prefix+"_solver_runs", st.runs)
	}
	c13AddStates(st.cases, st.calls, st.cases)
}

// c13SparseOnce: all entry assignments of one function, real solver with its own map order.
func c13SparseOnce[L dfa.Semilattice[E], E any](fam *c13SFam[E], cf *c13Fn, entries [][]int, res *vx.Result, st *c13SparseStats) {
	for _, entry := range entries {
		if c13Stop.Load() {
			return
		}
		x, rounds, herr := c13SparseKleene[L](fam, cf, entry)
		if herr != "" {
			res.Note("harness error in %s %s: %s", fam.name, cf.prog.id(), herr)
			res.NotExhaustive("harness error (see notes)")
			return
		}
		ins, calls, aborted, pmsg := c13SparseReal[L](fam, cf, entry, nil)
		st.cases++
		st.calls += int64(calls)
		if cf.cyclic {
			st.cyclic++
			if rounds > 1 {
				st.nontrivial++
			}
		}
		msg := ""
		switch {
		case aborted:
			msg = "does not terminate within its step budget"
		case pmsg != "":
			msg = "panic in sparse Forward: " + pmsg
		default:
			msg = c13SparseCompare(fam, cf, entry, ins, x)
		}
		if msg != "" {
			c := c13SparseCase{Kind: "sparse", Fam: fam.name, Prog: cf.prog, Mode: int(cf.mode), Entry: slices.Clone(entry)}
			c13Violate(c.key(), msg+" — "+c13SparseDescribe(fam, cf, c), c)
		}
	}
}

// c13SparseOrders: one (function, entry) under both baseline orders and every run with up to
// maxDev deviations. Instrumented binary only.
func c13SparseOrders[L dfa.Semilattice[E], E any](fam *c13SFam[E], cf *c13Fn, entry []int, maxDev int, only *c13SparseCase, res *vx.Result, st *c13SparseStats) {
	x, rounds, herr := c13SparseKleene[L](fam, cf, entry)
	if herr != "" {
		res.Note("harness error in %s %s: %s", fam.name, cf.prog.id(), herr)
		res.NotExhaustive("harness error (see notes)")
		return
	}
	st.cases++
	if cf.cyclic {
		st.cyclic++
		if rounds > 1 {
			st.nontrivial++
		}
	}
	// run executes one order; returns the worklist sizes seen at each step.
	run := func(policy int, devs [][2]int) (sizes []int, ok bool) {
		feasible := true
		chooser := func(cands []ir.Instruction) int {
			step := len(sizes)
			sizes = append(sizes, len(cands))
			for _, d := range devs {
				if d[0] == step {
					if d[1] >= len(cands) {
						feasible = false
						break
					}
					return d[1]
				}
			}
			if policy == 1 {
				return len(cands) - 1
			}
			return 0
		}
		before := sparse.VerifPickCalls.Load()
		ins, _, aborted, pmsg := c13SparseReal[L](fam, cf, entry, chooser)
		st.runs++
		st.calls += int64(len(sizes))
		if sparse.VerifPickCalls.Load() == before {
			res.Note("the rewritten dfa.go is not in effect in this binary")
			res.NotExhaustive("worklist orders not explored: chooser never called")
			return nil, false
		}
		if !feasible {
			return sizes, true
		}
		msg := ""
		switch {
		case aborted:
			msg = "does not terminate within its step budget"
		case pmsg != "":
			msg = "panic in sparse Forward: " + pmsg
		default:
			msg = c13SparseCompare(fam, cf, entry, ins, x)
		}
		if msg != "" {
			c := c13SparseCase{Kind: "sparse-order", Fam: fam.name, Prog: cf.prog, Mode: int(cf.mode), Entry: slices.Clone(entry), Policy: policy, Devs: slices.Clone(devs)}
			c13Violate(c.key(), msg+" — "+c13SparseDescribe(fam, cf, c), c)
		}
		return sizes, true
	}
	if only != nil {
		run(only.Policy, only.Devs)
		return
	}
	base := func(policy, size int) int {
		if policy == 1 {
			return size - 1
		}
		return 0
	}
	var explore func(policy int, devs [][2]int, from int, depth int) bool
	explore = func(policy int, devs [][2]int, from int, depth int) bool {
		sizes, ok := run(policy, devs)
		if !ok {
			return false
		}
		if depth == 0 {
			return true
		}
		for s := from; s < len(sizes); s++ {
			for k := 0; k < sizes[s]; k++ {
				if k == base(policy, sizes[s]) {
					continue
				}
				if c13Stop.Load() {
					return false
				}
				if !explore(policy, append(slices.Clone(devs), [2]int{s, k}), s+1, depth-1) {
					return false
				}
			}
		}
		return true
	}
	for policy := 0; policy < 2; policy++ {
		if !explore(policy, nil, 0, maxDev) {
			return
		}
	}
}

// c13Entries: all assignments of the family's points to the parameters, or the reduced set
// {bottom, top, one middle point} per parameter.
func c13Entries(npoints, nparams int, reduced, topMid bool) [][]int {
	choices := make([]int, 0, npoints)
	if reduced && topMid {
		choices = append(choices, npoints-1, 1)
	} else if reduced {
		choices = append(choices, 0, npoints-1, 1)
	} else {
		for i := 0; i < npoints; i++ {
			choices = append(choices, i)
		}
	}
	out := [][]int{{}}
	for p := 0; p < nparams; p++ {
		var next [][]int
		for _, e := range out {
			for _, c := range choices {
				next = append(next, append(slices.Clone(e), c))
			}
		}
		out = next
	}
	return out
}

// ---------------------------------------------------------------------------------------------
// drivers

type c13SparsePlan struct {
	kind    string
	nvs     []int
	shapes  []string
	maxSeq  int
	modes   []ir.BuilderMode
	reduced bool // parameter facts {bottom, top, one middle} instead of all
	topMid  bool // with reduced: only {top, one middle}
	maxDev  int  // order exploration only
}

func c13RunPlan(plans []c13SparsePlan, orders bool, res *vx.Result, budget time.Duration) {
	sign, mod3, snil := c13FamSign(), c13FamMod3(), c13FamSNil()
	type batch struct {
		plan  c13SparsePlan
		progs []c13Prog
		mode  ir.BuilderMode
	}
	var batches []batch
	const size = 100
	for _, pl := range plans {
		progs := c13Progs(pl.kind, pl.nvs, pl.shapes, pl.maxSeq)
		for _, m := range pl.modes {
			for i := 0; i < len(progs); i += size {
				batches = append(batches, batch{pl, progs[i:min(i+size, len(progs))], m})
			}
		}
	}
	deadline := time.Now().Add(budget)
	var expired atomic.Bool
	var sampled atomic.Int32
	var wg sync.WaitGroup
	work := make(chan batch, 16)
	for w := 0; w < runtime.GOMAXPROCS(0); w++ {
		wg.Add(1)
		go func() {
			defer wg.Done()
			for b := range work {
				if c13Stop.Load() {
					continue
				}
				if time.Now().After(deadline) {
					expired.Store(true)
					continue
				}
				fns, err := c13Build(b.progs, b.mode)
				if err != nil {
					res.Note("generator bug: %v", err)
					res.NotExhaustive("a generated package was not built")
					continue
				}
				prefix := "sparse"
				if orders {
					prefix = "sparse_order"
				}
				res.Count(prefix+"_functions_built", int64(len(fns)))
				var st1, st2, st3 c13SparseStats
				for _, cf := range fns {
					if cf.cyclic && sampled.Add(1) <= 2 {
						res.Sample(map[string]any{"kind": prefix, "prog": cf.prog, "mode": int(cf.mode), "values": len(cf.vals), "source": cf.prog.source("f")})
					}
					if b.plan.kind == "int" {
						es1 := c13Entries(len(sign.points), len(cf.params), b.plan.reduced, b.plan.topMid)
						es2 := c13Entries(len(mod3.points), len(cf.params), b.plan.reduced, b.plan.topMid)
						if orders {
							for _, e := range es1 {
								c13SparseOrders[c13Bits](sign, cf, e, b.plan.maxDev, nil, res, &st1)
							}
							for _, e := range es2 {
								c13SparseOrders[c13Flat](mod3, cf, e, b.plan.maxDev, nil, res, &st2)
							}
						} else {
							c13SparseOnce[c13Bits](sign, cf, es1, res, &st1)
							c13SparseOnce[c13Flat](mod3, cf, es2, res, &st2)
						}
					} else {
						es := c13Entries(len(snil.points), len(cf.params), b.plan.reduced, b.plan.topMid)
						if orders {
							for _, e := range es {
								c13SparseOrders[lattice](snil, cf, e, b.plan.maxDev, nil, res, &st3)
							}
						} else {
							c13SparseOnce[lattice](snil, cf, es, res, &st3)
						}
					}
				}
				if b.plan.kind == "int" {
					st1.flush(res, prefix, sign.name)
					st2.flush(res, prefix, mod3.name)
				} else {
					st3.flush(res, prefix, snil.name)
				}
			}
		}()
	}
	for _, b := range batches {
		work <- b
	}
	close(work)
	wg.Wait()
	if expired.Load() {
		res.NotExhaustive("sparse enumeration stopped at its time budget")
	}
}

func c13ReplaySparse(c c13SparseCase, res *vx.Result) {
	fns, err := c13Build([]c13Prog{c.Prog}, ir.BuilderMode(c.Mode))
	if err != nil {
		res.Note("replay: %v", err)
		return
	}
	cf := fns[0]
	if len(c.Entry) != len(cf.params) {
		res.Note("replay file does not describe a sparse case of this harness")
		return
	}
	var st c13SparseStats
	var only *c13SparseCase
	if c.Kind == "sparse-order" {
		only = &c
	}
	// A "sparse" case ran under the solver's own (random) map order, so a failure that depends
	// on the order need not show up in one re-run: repeat the very same case until it does.
	// (Convenience for the reader of a replay file only; "sparse-order" cases are deterministic.)
	reps := 1
	if only == nil {
		reps = 300
	}
	sign, mod3, snil := c13FamSign(), c13FamMod3(), c13FamSNil()
	for i := 0; i < reps && res.NumViolations() == 0; i++ {
		switch c.Fam {
		case sign.name:
			if only != nil {
				c13SparseOrders[c13Bits](sign, cf, c.Entry, 0, only, res, &st)
			} else {
				c13SparseOnce[c13Bits](sign, cf, [][]int{c.Entry}, res, &st)
			}
		case mod3.name:
			if only != nil {
				c13SparseOrders[c13Flat](mod3, cf, c.Entry, 0, only, res, &st)
			} else {
				c13SparseOnce[c13Flat](mod3, cf, [][]int{c.Entry}, res, &st)
			}
		case snil.name:
			if only != nil {
				c13SparseOrders[lattice](snil, cf, c.Entry, 0, only, res, &st)
			} else {
				c13SparseOnce[lattice](snil, cf, [][]int{c.Entry}, res, &st)
			}
		}
	}
	st.flush(res, "replay", c.Fam)
}

var c13SparseBound string

var c13AllShapes = []string{"loop", "loop-if", "loop-loop", "loop;loop", "if-if"}
var c13LoopShapes = []string{"loop", "loop-if", "loop-loop", "loop;loop"}

func c13SparseMain(t *testing.T, res *vx.Result) {
	modes := []ir.BuilderMode{0, ir.GlobalDebug}
	m0 := modes[:1]
	var plans []c13SparsePlan
	for _, kind := range []string{"int", "ptr"} {
		if vx.Thorough() {
			plans = append(plans,
				c13SparsePlan{kind: kind, nvs: []int{1, 2}, shapes: c13AllShapes, maxSeq: 1, modes: modes},
				c13SparsePlan{kind: kind, nvs: []int{3}, shapes: c13LoopShapes, maxSeq: 1, modes: modes},
				c13SparsePlan{kind: kind, nvs: []int{1, 2}, shapes: []string{"loop"}, maxSeq: 2, modes: modes},
				c13SparsePlan{kind: kind, nvs: []int{1}, shapes: []string{"loop-if", "loop-loop"}, maxSeq: 2, modes: m0},
			)
		} else {
			plans = append(plans,
				c13SparsePlan{kind: kind, nvs: []int{1, 2}, shapes: c13LoopShapes, maxSeq: 1, modes: modes},
				c13SparsePlan{kind: kind, nvs: []int{1}, shapes: []string{"if-if"}, maxSeq: 1, modes: m0},
				c13SparsePlan{kind: kind, nvs: []int{2}, shapes: []string{"if-if"}, maxSeq: 1, modes: m0, reduced: true},
				c13SparsePlan{kind: kind, nvs: []int{3}, shapes: c13LoopShapes, maxSeq: 1, modes: m0, reduced: true},
				c13SparsePlan{kind: kind, nvs: []int{1, 2}, shapes: []string{"loop"}, maxSeq: 2, modes: m0},
			)
		}
	}
	c13SparseBound = vx.Pick(
		"sparse: int (sign, mod3) and ptr (nilness) functions; loop / loop-if / loop-loop / loop;loop with one statement per hole for 1-2 variables, all parameter facts, builder modes 0 and GlobalDebug; if-if (1 variable all facts, 2 variables facts {bottom, top, one middle}); the loop shapes with 3 variables (reduced facts); loop with <=2 statements (1-2 variables); worklist orders (mode 0, facts {top, one middle}): 1 variable all loop shapes, 2 variables loop and loop-if, two baseline orders x <=1 deviation; 1 variable single loop <=2 deviations",
		"sparse: int (sign, mod3) and ptr (nilness) functions; all five shapes with one statement per hole for 1-2 variables, the loop shapes with 3 variables, <=2 statements per hole for loop (1-2 variables) and loop-if / loop-loop (1 variable); all parameter facts; builder modes 0 and GlobalDebug; worklist orders (mode 0): 1-2 variables all loop shapes with facts {bottom, top, one middle}, 3 variables loop / loop-if with facts {top, one middle}, two baseline orders x <=1 deviation; single loops (1-2 variables) and 1-variable loop-if <=2 deviations, facts {top, one middle}")
	start := time.Now()
	c13RunPlan(plans, false, res, vx.Pick(10*time.Minute, 40*time.Minute))
	t.Logf("sparse (built-in order): done in %v", time.Since(start))
}

// c13OrdersInner runs in the instrumented binary.
func c13OrdersInner(t *testing.T, res *vx.Result) {
	m0 := []ir.BuilderMode{0}
	var plans []c13SparsePlan
	for _, kind := range []string{"int", "ptr"} {
		if vx.Thorough() {
			plans = append(plans,
				c13SparsePlan{kind: kind, nvs: []int{1, 2}, shapes: c13LoopShapes, maxSeq: 1, modes: m0, reduced: true, maxDev: 1},
				c13SparsePlan{kind: kind, nvs: []int{3}, shapes: []string{"loop", "loop-if"}, maxSeq: 1, modes: m0, reduced: true, topMid: true, maxDev: 1},
				c13SparsePlan{kind: kind, nvs: []int{1, 2}, shapes: []string{"loop"}, maxSeq: 1, modes: m0, reduced: true, topMid: true, maxDev: 2},
				c13SparsePlan{kind: kind, nvs: []int{1}, shapes: []string{"loop-if"}, maxSeq: 1, modes: m0, reduced: true, topMid: true, maxDev: 2},
			)
		} else {
			plans = append(plans,
				c13SparsePlan{kind: kind, nvs: []int{1}, shapes: c13LoopShapes, maxSeq: 1, modes: m0, reduced: true, topMid: true, maxDev: 1},
				c13SparsePlan{kind: kind, nvs: []int{2}, shapes: []string{"loop", "loop-if"}, maxSeq: 1, modes: m0, reduced: true, topMid: true, maxDev: 1},
				c13SparsePlan{kind: kind, nvs: []int{1}, shapes: []string{"loop"}, maxSeq: 1, modes: m0, reduced: true, topMid: true, maxDev: 2},
			)
		}
	}
	c13RunPlan(plans, true, res, vx.Pick(10*time.Minute, 40*time.Minute))
}

// ---------------------------------------------------------------------------------------------
// the instrumented binary

var c13PickRE = regexp.MustCompile(`for\s+instr\s*=\s*range\s+worklist\s*\{\s*break\s*\}`)

// c13BuildInstrumented builds the test binary of this package again, with the current
// sparse/dfa.go replaced by its rewritten copy. Returns "" (and a note) if that is not possible.
func c13BuildInstrumented(res *vx.Result) string {
	repo := vx.RepoDir()
	verif := os.Getenv("VERIF_DIR")
	if verif == "" {
		verif = "/verif"
	}
	cdir := vx.CheckDir()
	if cdir == "" {
		cdir = filepath.Join(verif, "checks", "C13")
	}
	scratch := vx.ScratchDir()
	dfaPath := filepath.Join(repo, "analysis", "dfa", "sparse", "dfa.go")
	src, err := os.ReadFile(dfaPath)
	if err != nil {
		res.Note("worklist orders not explored: %v", err)
		return ""
	}
	if n := len(c13PickRE.FindAll(src, -1)); n != 1 {
		res.Note("worklist orders not explored: the worklist pick `for instr = range worklist { break }` occurs %d times in the current dfa.go, mechanical rewrite not applicable", n)
		return ""
	}
	rewritten := c13PickRE.ReplaceAll(src, []byte("instr = verifPick(fn, worklist)"))
	rw := filepath.Join(scratch, "dfa_rewritten.go")
	if err := os.WriteFile(rw, rewritten, 0o644); err != nil {
		res.Note("worklist orders not explored: %v", err)
		return ""
	}
	ov := map[string]string{dfaPath: rw}
	var cfg struct {
		Overlay map[string]string `json:"overlay"`
		Pkg     string            `json:"pkg"`
	}
	b, err := os.ReadFile(filepath.Join(cdir, "check.json"))
	if err == nil {
		err = json.Unmarshal(b, &cfg)
	}
	if err != nil {
		res.Note("worklist orders not explored: check.json: %v", err)
		return ""
	}
	for dst, s := range cfg.Overlay {
		ov[filepath.Join(repo, dst)] = filepath.Join(cdir, s)
	}
	engine := filepath.Join(verif, "engine")
	filepath.Walk(engine, func(p string, info os.FileInfo, err error) error {
		if err == nil && !info.IsDir() && strings.HasSuffix(p, ".go") {
			rel, _ := filepath.Rel(engine, p)
			ov[filepath.Join(repo, "internal", "verifx", rel)] = p
		}
		return nil
	})
	ovb, _ := json.Marshal(map[string]any{"Replace": ov})
	ovp := filepath.Join(scratch, "inner-overlay.json")
	os.WriteFile(ovp, ovb, 0o644)
	bin := filepath.Join(scratch, "inner.test")
	cmd := exec.Command("go", "test", "-c", "-vet=off", "-overlay", ovp, "-tags", "verif", "-o", bin, cfg.Pkg)
	cmd.Dir = repo
	out, err := cmd.CombinedOutput()
	if err != nil {
		// The ordinary binary was built from the same tree, so this is about the rewrite.
		res.Note("worklist orders not explored: instrumented build failed: %v: %s", err, strings.TrimSpace(string(out)))
		return ""
	}
	return bin
}

// c13OrdersOuter builds and runs the instrumented binary and merges its result.
func c13OrdersOuter(t *testing.T, res *vx.Result, replay bool) {
	start := time.Now()
	bin := c13BuildInstrumented(res)
	if bin == "" {
		res.Unassert("sparse solver under controlled worklist orders: not explored (see notes); only the result under the built-in map order was asserted")
		return
	}
	t.Logf("sparse orders: instrumented binary built in %v", time.Since(start))
	if c13Stop.Load() {
		res.Note("worklist orders not explored: the run had already collected its maximum of violations")
		return
	}
	out := filepath.Join(vx.ScratchDir(), "inner-result.json")
	cmd := exec.Command(bin, "-test.run", "^TestVerifC13$", "-test.timeout", vx.Pick("20m", "60m"))
	cmd.Env = append(os.Environ(), "VERIF_C13_INNER=1", "VERIF_OUT="+out, "VERIF_SCRATCH_DIR="+filepath.Join(vx.ScratchDir(), "inner"),
		fmt.Sprintf("GOMAXPROCS=%d", max(2, runtime.GOMAXPROCS(0)/2)))
	os.MkdirAll(filepath.Join(vx.ScratchDir(), "inner"), 0o755)
	cmd.Dir, _ = os.Getwd()
	var buf bytes.Buffer
	cmd.Stdout, cmd.Stderr = &buf, &buf
	err := cmd.Run()
	b, rerr := os.ReadFile(out)
	if rerr != nil {
		res.Note("instrumented binary produced no result (%v): %s", err, c13Tail(buf.String(), 1500))
		res.NotExhaustive("worklist orders not explored: instrumented run failed")
		return
	}
	var inner struct {
		Evaluations int64            `json:"evaluations"`
		Nontrivial  int64            `json:"distinct_nontrivial"`
		States      int64            `json:"states"`
		Transitions int64            `json:"transitions"`
		Validated   int64            `json:"traces_validated_against_impl"`
		Exhaustive  bool             `json:"exhaustive"`
		Counters    map[string]int64 `json:"counters"`
		Samples     []any            `json:"samples"`
		Notes       []string         `json:"notes"`
		Violations  []struct {
			Key     string          `json:"key"`
			Message string          `json:"message"`
			Case    json.RawMessage `json:"case"`
		} `json:"violations"`
	}
	if err := json.Unmarshal(b, &inner); err != nil {
		res.Note("instrumented binary wrote an unreadable result: %v", err)
		res.NotExhaustive("worklist orders not explored: instrumented run failed")
		return
	}
	res.Eval(inner.Evaluations)
	res.NontrivialN(inner.Nontrivial)
	c13AddStates(inner.States, inner.Transitions, inner.Validated)
	for k, v := range inner.Counters {
		res.Count(k, v)
	}
	for _, n := range inner.Notes {
		res.Note("instrumented: %s", n)
	}
	if !inner.Exhaustive {
		res.NotExhaustive("the instrumented run was not exhaustive")
	}
	for _, s := range inner.Samples {
		res.Sample(s)
	}
	for _, v := range inner.Violations {
		var c any
		json.Unmarshal(v.Case, &c)
		c13Violate(v.Key, v.Message, c)
	}
	t.Logf("sparse orders: done in %v", time.Since(start))
}

func c13Tail(s string, n int) string {
	if len(s) > n {
		return s[len(s)-n:]
	}
	return s
}
