//go:build verif

package nilness

// C13 — shared pieces of the harness: the result object, the graph type handed to the real
// dense solver (in the four shapes the graph package distinguishes), small lattices written
// for the harness, and the counters.
//
// The harness is an in-package test of analysis/facts/nilness so that the REAL, unexported
// nilness `lattice` / `latticeMerge` are what the solvers and the law checks run on; the dense
// and sparse solvers and dfa.MapLattice / dfa.DenseMapLattice are used through their API.

import (
	"fmt"
	"iter"
	"os"
	"runtime/debug"
	"slices"
	"strings"
	"sync"
	"sync/atomic"

	"honnef.co/go/tools/internal/verifx/vx"
)

var (
	c13Once sync.Once
	c13Res  *vx.Result
	c13Mu   sync.Mutex
)

func c13Result() *vx.Result {
	c13Once.Do(func() {
		// The solvers allocate a little per run and the live heap is tiny, so with the default
		// pacing the collector would run hundreds of times per second and serialise the
		// workers. A never-touched ballast makes a cycle start only after 256 MiB of garbage.
		if os.Getenv("GOGC") == "" && os.Getenv("GOMEMLIMIT") == "" {
			debug.SetGCPercent(-1)
			debug.SetMemoryLimit(1536 << 20)
		}
		c13Res = vx.New("dense: every (digraph, per-edge transfer labelling, entry-fact assignment to the zero-predecessor nodes) of the stated bounds, per lattice family, through the real dense.Forward, compared with a round-robin Kleene iteration from bottom and with the fixpoint equations; sparse: every generated loop/if function x transfer family x parameter facts through the real sparse.Forward on real IR (once with the built-in map order, and under every worklist order of the stated deviation bound on a mechanically rewritten copy of the current dfa.go); laws: every triple of lattice points. Non-trivial = the graph (def-use graph) has a cycle and the Kleene iteration needed more than one changing round, i.e. a fact travelled around the cycle.")
	})
	return c13Res
}

// c13AddStates adds to the model-checking counters (which vx leaves to the harness).
func c13AddStates(states, transitions, validated int64) {
	res := c13Result()
	c13Mu.Lock()
	res.States += states
	res.Transitions += transitions
	res.Validated += validated
	c13Mu.Unlock()
}

// c13Stop is set once enough violations were recorded; workers stop enumerating (the run is
// failing anyway, and a mutant should not take the full enumeration time to be reported).
var c13Stop atomic.Bool
var c13VioCount atomic.Int64

const c13MaxViolations = 25

func c13Violate(key, msg string, c any) {
	if c13VioCount.Add(1) > c13MaxViolations {
		c13Stop.Store(true)
		return
	}
	c13Result().Violate(key, msg, c)
}

// ---------------------------------------------------------------------------------------------
// graphs

// c13Graph is a simple digraph (self-loops allowed). Succs[i] is ascending.
type c13Graph struct {
	N     int     `json:"n"`
	Succs [][]int `json:"succs"`
}

func (g c13Graph) String() string {
	var b strings.Builder
	fmt.Fprintf(&b, "n%d[", g.N)
	// large graphs of the word-boundary family: a chain i>i+1 plus a few extra edges
	chain := g.N > 8
	for i := 0; chain && i+1 < g.N; i++ {
		chain = slices.Contains(g.Succs[i], i+1)
	}
	if chain {
		fmt.Fprintf(&b, "chain0..%d", g.N-1)
	}
	first := !chain
	for i, ss := range g.Succs {
		for _, s := range ss {
			if chain && s == i+1 {
				continue
			}
			if !first {
				b.WriteByte(',')
			}
			first = false
			fmt.Fprintf(&b, "%d>%d", i, s)
		}
	}
	b.WriteByte(']')
	return b.String()
}

// c13FromMask decodes a graph from a bit mask over the n*n possible edges (bit i*n+j = i->j).
func c13FromMask(n int, mask uint64) c13Graph {
	g := c13Graph{N: n, Succs: make([][]int, n)}
	for i := 0; i < n; i++ {
		for j := 0; j < n; j++ {
			if mask&(1<<uint(i*n+j)) != 0 {
				g.Succs[i] = append(g.Succs[i], j)
			}
		}
	}
	return g
}

// c13GraphInfo is the precomputed shape of one graph.
type c13GraphInfo struct {
	g        c13Graph
	edges    [][2]int  // in (from, to) order
	eidx     [8][8]int // (from,to) -> edge index for graphs with <= 8 nodes; larger graphs search outs
	preds    [][]int   // edge indices entering node
	outs     [][]int   // edge indices leaving node
	zeroPred []int
	cyclic   bool
}

func c13Info(g c13Graph) *c13GraphInfo {
	gi := &c13GraphInfo{g: g, preds: make([][]int, g.N), outs: make([][]int, g.N)}
	for i := range gi.eidx {
		for j := range gi.eidx[i] {
			gi.eidx[i][j] = -1
		}
	}
	for i, ss := range g.Succs {
		for _, s := range ss {
			e := len(gi.edges)
			gi.edges = append(gi.edges, [2]int{i, s})
			if g.N <= 8 {
				gi.eidx[i][s] = e
			}
			gi.preds[s] = append(gi.preds[s], e)
			gi.outs[i] = append(gi.outs[i], e)
		}
	}
	for i := 0; i < g.N; i++ {
		if len(gi.preds[i]) == 0 {
			gi.zeroPred = append(gi.zeroPred, i)
		}
	}
	// cycle detection: repeatedly remove nodes without remaining predecessors
	indeg := make([]int, g.N)
	for _, e := range gi.edges {
		indeg[e[1]]++
	}
	removed := make([]bool, g.N)
	left := g.N
	for changed := true; changed; {
		changed = false
		for i := 0; i < g.N; i++ {
			if !removed[i] && indeg[i] == 0 {
				removed[i] = true
				left--
				changed = true
				for _, s := range g.Succs[i] {
					indeg[s]--
				}
			}
		}
	}
	gi.cyclic = left > 0
	return gi
}

// edge returns the index of edge from->to (-1 if absent).
func (gi *c13GraphInfo) edge(from, to int) int {
	if gi.g.N <= 8 {
		return gi.eidx[from][to]
	}
	for _, e := range gi.outs[from] {
		if gi.edges[e][1] == to {
			return e
		}
	}
	return -1
}

// The four shapes in which the graph is handed to the real solver.
const (
	c13VarPlain    = 0 // graph.Graph[int] without IsCompact: the shape of *ir.Function (sorted-int index)
	c13VarCompact  = 1 // graph.CompactGraph: identity index
	c13VarString   = 2 // graph.Graph[string]: hashed index
	c13VarDouble   = 3 // as plain, every edge yielded twice by Out (parallel edges, as `if c goto 1 else 1`)
	c13NumVariants = 4
)

var c13VariantNames = [...]string{"plain", "compact", "string", "double"}

type c13Plain struct {
	g      *c13Graph
	double bool
}

func (p c13Plain) NumNodes() int { return p.g.N }
func (p c13Plain) Nodes() iter.Seq[int] {
	return func(yield func(int) bool) {
		for i := 0; i < p.g.N; i++ {
			if !yield(i) {
				return
			}
		}
	}
}
func (p c13Plain) Out(n int) iter.Seq[int] {
	return func(yield func(int) bool) {
		for _, s := range p.g.Succs[n] {
			if !yield(s) {
				return
			}
			if p.double && !yield(s) {
				return
			}
		}
	}
}

type c13Compact struct{ c13Plain }

func (c13Compact) IsCompact() {}

var c13Names = [...]string{"n0", "n1", "n2", "n3", "n4", "n5", "n6", "n7"}

type c13Str struct{ g *c13Graph }

func (p c13Str) NumNodes() int { return p.g.N }
func (p c13Str) Nodes() iter.Seq[string] {
	return func(yield func(string) bool) {
		for i := 0; i < p.g.N; i++ {
			if !yield(c13Names[i]) {
				return
			}
		}
	}
}
func (p c13Str) Out(n string) iter.Seq[string] {
	i := int(n[1] - '0')
	return func(yield func(string) bool) {
		for _, s := range p.g.Succs[i] {
			if !yield(c13Names[s]) {
				return
			}
		}
	}
}

// ---------------------------------------------------------------------------------------------
// harness lattices (the nilness lattice is the real one from nilness.go)

// c13Bits: powerset of a small set, merge = union. Used for 1-bit and 2-bit gen/kill and the
// sparse sign analysis.
type c13Bits struct{}

func (c13Bits) Ident() uint8           { return 0 }
func (c13Bits) Equals(a, b uint8) bool { return a == b }
func (c13Bits) Merge(a, b uint8) uint8 { return a | b }

// c13Flat: flat lattice bottom(0) < constants 1..k < top(255).
type c13Flat struct{}

const c13Top = 255

func (c13Flat) Ident() uint8           { return 0 }
func (c13Flat) Equals(a, b uint8) bool { return a == b }
func (c13Flat) Merge(a, b uint8) uint8 {
	switch {
	case a == b:
		return a
	case a == 0:
		return b
	case b == 0:
		return a
	}
	return c13Top
}

// c13Chain3: the 3-point element lattice 0 < 1 < 2 of the MapLattice / DenseMapLattice law checks.
type c13Chain3 struct{}

func (c13Chain3) Ident() uint8           { return 0 }
func (c13Chain3) Equals(a, b uint8) bool { return a == b }
func (c13Chain3) Merge(a, b uint8) uint8 { return max(a, b) }

// c13And: an intersection ("must") lattice on bit sets: merge = AND, identity = all ones.
// The identity is NOT the zero value of the element type, and the zero value is an ordinary
// (the greatest) element.
type c13And struct{}

func (c13And) Ident() uint8           { return 0xFF }
func (c13And) Equals(a, b uint8) bool { return a == b }
func (c13And) Merge(a, b uint8) uint8 { return a & b }

// c13FlatNZ: flat lattice whose identity (bottom) is encoded as 7, constants 0 and 1 (so the
// zero value of the element type is the ordinary element "constant 0"), top 9.
type c13FlatNZ struct{}

const (
	c13NZBot uint8 = 7
	c13NZTop uint8 = 9
)

func (c13FlatNZ) Ident() uint8           { return c13NZBot }
func (c13FlatNZ) Equals(a, b uint8) bool { return a == b }
func (c13FlatNZ) Merge(a, b uint8) uint8 {
	switch {
	case a == b:
		return a
	case a == c13NZBot:
		return b
	case b == c13NZBot:
		return a
	}
	return c13NZTop
}

// c13Abort is the panic value used to leave a real solver that exceeded its step budget.
type c13Abort struct{}

// c13Guard runs f; reports (aborted-by-budget, other panic text).
func c13Guard(f func()) (aborted bool, pmsg string) {
	defer func() {
		if e := recover(); e != nil {
			if _, ok := e.(c13Abort); ok {
				aborted = true
				return
			}
			pmsg = fmt.Sprint(e)
			if pmsg == "" {
				pmsg = "panic"
			}
		}
	}()
	f()
	return
}
