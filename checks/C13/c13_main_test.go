//go:build verif

package nilness

// C13 entry point. One test function so that there is exactly one final res.Write():
// the parts run concurrently (the order exploration lives in a second process).

import (
	"encoding/json"
	"os"
	"strings"
	"sync"
	"testing"

	"honnef.co/go/tools/internal/verifx/vx"
)

func TestVerifC13(t *testing.T) {
	res := c13Result()
	defer res.Write()
	inner := os.Getenv("VERIF_C13_INNER") != ""

	if _, raw, ok := vx.Replay(); ok {
		var k struct {
			Kind string `json:"kind"`
		}
		json.Unmarshal(raw, &k)
		switch k.Kind {
		case "dense":
			if !inner {
				c13DenseReplay(raw, res)
			}
		case "law":
			if !inner {
				c13LawsMain(t, res, raw)
			}
		case "sparse":
			if !inner {
				var c c13SparseCase
				json.Unmarshal(raw, &c)
				c13ReplaySparse(c, res)
			}
		case "sparse-order":
			if inner {
				var c c13SparseCase
				json.Unmarshal(raw, &c)
				c13ReplaySparse(c, res)
			} else {
				c13OrdersOuter(t, res, true)
			}
		default:
			res.Note("replay file of unknown kind %q", k.Kind)
		}
		return
	}

	if inner {
		c13OrdersInner(t, res)
		return
	}
	parts := os.Getenv("C13_PARTS") // development aid: subset of "laws,dense,sparse,orders"
	want := func(p string) bool { return parts == "" || strings.Contains(parts, p) }
	if parts != "" {
		res.NotExhaustive("restricted by C13_PARTS")
	}
	var wg sync.WaitGroup
	if want("orders") {
		wg.Add(1)
		go func() {
			defer wg.Done()
			c13OrdersOuter(t, res, false)
		}()
	}
	if want("laws") {
		c13LawsMain(t, res, nil)
	}
	if want("sparse") {
		c13SparseMain(t, res)
	}
	if want("dense") {
		c13DenseMain(t, res)
	}
	wg.Wait()
	res.Bound = c13DenseBound + "; " + c13SparseBound
}
