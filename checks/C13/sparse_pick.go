//go:build verif

package sparse

// Injected by the C13 harness (overlay only; never part of /repo).
//
// The real Instance.Forward takes "some" element of a Go map as the next worklist item. To
// make that order a choice of the explorer, the harness builds a second test binary in which
// the current dfa.go is overlaid by a copy whose
//
//	for instr = range worklist { break }
//
// has been rewritten mechanically to `instr = verifPick(fn, worklist)`. In the ordinary build
// verifPick is unused and the original map iteration runs.

import (
	"slices"
	"sync"
	"sync/atomic"

	"honnef.co/go/tools/go/ir"
)

// VerifPickCalls counts calls of verifPick: > 0 proves that the rewritten dfa.go is in effect.
var VerifPickCalls atomic.Int64

var verifChoosers sync.Map // *ir.Function -> func([]ir.Instruction) int

// VerifSetChooser installs, for one function, the strategy that picks the next worklist
// element: it receives the candidates sorted by instruction ID and returns an index.
func VerifSetChooser(fn *ir.Function, ch func(cands []ir.Instruction) int) {
	if ch == nil {
		verifChoosers.Delete(fn)
		return
	}
	verifChoosers.Store(fn, ch)
}

func verifPick(fn *ir.Function, worklist map[ir.Instruction]struct{}) ir.Instruction {
	VerifPickCalls.Add(1)
	cands := make([]ir.Instruction, 0, len(worklist))
	for k := range worklist {
		cands = append(cands, k)
	}
	slices.SortFunc(cands, func(a, b ir.Instruction) int { return int(a.ID()) - int(b.ID()) })
	if ch, ok := verifChoosers.Load(fn); ok {
		return cands[ch.(func([]ir.Instruction) int)(cands)]
	}
	return cands[0]
}
