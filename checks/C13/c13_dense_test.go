//go:build verif

package nilness

// C13, dense part: the real dense.Forward on every small flow graph x every labelling of its
// edges with monotone transfer functions x every entry-fact assignment, compared with a
// round-robin Kleene iteration from bottom written here, with the fixpoint equations, and with
// a step budget (termination).

import (
	"encoding/json"
	"fmt"
	"math/bits"
	"os"
	"runtime"
	"slices"
	"strings"
	"sync"
	"sync/atomic"
	"testing"
	"time"

	"honnef.co/go/tools/analysis/dfa"
	"honnef.co/go/tools/analysis/dfa/dense"
	"honnef.co/go/tools/internal/verifx/vx"
	"honnef.co/go/tools/internal/xtools-internal/graph"
)

// c13Fam is one lattice + monotone transfer family.
type c13Fam[F any] struct {
	name   string
	height int // length of the longest strictly ascending chain minus one
	points []F // every entry fact that is enumerated
	pstr   func(F) string
	tfs    []func(F) F
	tnames []string
	// refMerge/refEquals, when set, are the reference model's own merge and equality for this
	// fact type (written in the harness), so that the oracle does not share dfa.DenseMapLattice
	// with the solver. nil: the lattice's own Merge/Equals (their laws are checked separately).
	refMerge  func(a, b F) F
	refEquals func(a, b F) bool
}

func c13Ops[L dfa.Semilattice[F], F any](fam *c13Fam[F]) (merge func(a, b F) F, equals func(a, b F) bool) {
	var l L
	merge, equals = l.Merge, l.Equals
	if fam.refMerge != nil {
		merge, equals = fam.refMerge, fam.refEquals
	}
	return
}

type c13DenseCase struct {
	Kind    string   `json:"kind"` // "dense"
	Fam     string   `json:"fam"`
	Graph   c13Graph `json:"graph"`
	Labels  []int    `json:"labels"`  // per edge in (from,to) order: index into the family's transfer list
	Entry   []int    `json:"entry"`   // per zero-predecessor node, ascending: -1 = absent from the entry map, else index into the family's points
	Variant int      `json:"variant"` // shape in which the graph is handed to the solver
}

func (c c13DenseCase) key() string {
	labels := fmt.Sprint(c.Labels)
	if len(c.Labels) > 16 { // large graphs: only the edges whose transfer is not the first of the family (id)
		var b strings.Builder
		b.WriteByte('[')
		for e, l := range c.Labels {
			if l != 0 {
				fmt.Fprintf(&b, "e%d=%d;", e, l)
			}
		}
		b.WriteByte(']')
		labels = b.String()
	}
	return fmt.Sprintf("dense/%s/%s/t%s/in%v/%s", c.Fam, c.Graph, labels, c.Entry, c13VariantNames[c.Variant])
}

func c13Key(s string) string { return strings.ReplaceAll(s, " ", ",") }

// c13Scratch holds per-worker buffers.
type c13Scratch[F any] struct {
	inK, inR     []F
	edgeK, edgeR []F
}

// c13Kleene: round-robin iteration from bottom over the equation system
//
//	In(n)     = entry(n) or Ident                 if n has no predecessor
//	In(n)     = merge of Edge(p,n) over all p     otherwise
//	Edge(p,s) = transfer(p,s)(In(p))
//
// returns the number of sweeps that changed something, or -1 if it did not stabilise within
// the bound that monotonicity guarantees (a harness error, not a violation).
func c13Kleene[L dfa.Semilattice[F], F any](fam *c13Fam[F], gi *c13GraphInfo, labels []int, entryFact func(k int) F, in, edge []F) int {
	var l L
	merge, equals := c13Ops[L](fam)
	for i := range in {
		in[i] = l.Ident()
	}
	for i := range edge {
		edge[i] = l.Ident()
	}
	for k, n := range gi.zeroPred {
		in[n] = entryFact(k)
	}
	maxSweeps := (gi.g.N+len(gi.edges))*(fam.height+1) + 2
	changing := 0
	for sweep := 0; ; sweep++ {
		if sweep > maxSweeps {
			return -1
		}
		changed := false
		for n := 0; n < gi.g.N; n++ {
			if len(gi.preds[n]) > 0 {
				acc := l.Ident()
				for _, e := range gi.preds[n] {
					acc = merge(acc, edge[e])
				}
				if !equals(acc, in[n]) {
					in[n] = acc
					changed = true
				}
			}
			for _, e := range gi.outs[n] {
				v := fam.tfs[labels[e]](in[n])
				if !equals(v, edge[e]) {
					edge[e] = v
					changed = true
				}
			}
		}
		if !changed {
			return changing
		}
		changing++
	}
}

// c13Real runs the real solver on graph shape g (node i has ID ids[i]); fills in/edge.
func c13Real[L dfa.Semilattice[F], F any, ID comparable](g graph.Graph[ID], ids []ID, idx func(ID) int, fam *c13Fam[F], gi *c13GraphInfo, labels []int, entry map[ID]F, budget int, in, edge []F) (calls int, aborted bool, pmsg string) {
	transfer := func(from, to ID, f F) F {
		calls++
		if calls > budget {
			panic(c13Abort{})
		}
		e := gi.edge(idx(from), idx(to))
		return fam.tfs[labels[e]](f)
	}
	aborted, pmsg = c13Guard(func() {
		a := dense.Forward[L](g, entry, transfer)
		for n := 0; n < gi.g.N; n++ {
			in[n] = a.In(ids[n])
		}
		for e, ft := range gi.edges {
			edge[e] = a.Edge(ids[ft[0]], ids[ft[1]])
		}
	})
	return
}

var c13IntIDs = func() []int {
	ids := make([]int, 256)
	for i := range ids {
		ids[i] = i
	}
	return ids
}()

// c13DenseRun evaluates one case. msg != "" is a violation; harnessErr != "" is a defect of the
// harness (never reported as a violation).
func c13DenseRun[L dfa.Semilattice[F], F any](fam *c13Fam[F], gi *c13GraphInfo, labels, entry []int, variant int, sc *c13Scratch[F]) (msg, harnessErr string, calls, rounds int) {
	var l L
	n, ne := gi.g.N, len(gi.edges)
	sc.inK, sc.inR = slices.Grow(sc.inK[:0], n)[:n], slices.Grow(sc.inR[:0], n)[:n]
	sc.edgeK, sc.edgeR = slices.Grow(sc.edgeK[:0], ne)[:ne], slices.Grow(sc.edgeR[:0], ne)[:ne]
	entryFact := func(k int) F {
		if entry[k] < 0 {
			return l.Ident()
		}
		return fam.points[entry[k]]
	}
	rounds = c13Kleene[L](fam, gi, labels, entryFact, sc.inK, sc.edgeK)
	if rounds < 0 {
		return "", "reference iteration did not stabilise (transfer family not monotone?)", 0, 0
	}
	// every block runs its transfers once when first visited and again only when its input
	// grew: at most |E|*(height+1) calls. The budget is four times that.
	mult := 1
	if variant == c13VarDouble {
		mult = 2
	}
	budget := 4*mult*ne*(fam.height+1) + 4
	var aborted bool
	var pmsg string
	switch variant {
	case c13VarPlain, c13VarDouble, c13VarCompact:
		em := map[int]F{}
		for k, nd := range gi.zeroPred {
			if entry[k] >= 0 {
				em[nd] = fam.points[entry[k]]
			}
		}
		if len(em) == 0 {
			em = nil
		}
		var g graph.Graph[int]
		switch variant {
		case c13VarPlain:
			g = c13Plain{g: &gi.g}
		case c13VarDouble:
			g = c13Plain{g: &gi.g, double: true}
		default:
			g = c13Compact{c13Plain{g: &gi.g}}
		}
		calls, aborted, pmsg = c13Real[L](g, c13IntIDs, func(i int) int { return i }, fam, gi, labels, em, budget, sc.inR, sc.edgeR)
	case c13VarString:
		em := map[string]F{}
		for k, nd := range gi.zeroPred {
			if entry[k] >= 0 {
				em[c13Names[nd]] = fam.points[entry[k]]
			}
		}
		calls, aborted, pmsg = c13Real[L](graph.Graph[string](c13Str{g: &gi.g}), c13Names[:], func(s string) int { return int(s[1] - '0') }, fam, gi, labels, em, budget, sc.inR, sc.edgeR)
	}
	if aborted {
		return fmt.Sprintf("does not terminate: more than %d transfer calls (4 x |E| x (height+1))", budget), "", calls, rounds
	}
	if pmsg != "" {
		return "panic in dense.Forward: " + pmsg, "", calls, rounds
	}
	merge, equals := c13Ops[L](fam)
	for i := 0; i < n; i++ {
		if !equals(sc.inR[i], sc.inK[i]) {
			return fmt.Sprintf("In(%d) = %s, least fixpoint has %s", i, fam.pstr(sc.inR[i]), fam.pstr(sc.inK[i])), "", calls, rounds
		}
	}
	for e, ft := range gi.edges {
		if !equals(sc.edgeR[e], sc.edgeK[e]) {
			return fmt.Sprintf("Edge(%d,%d) = %s, least fixpoint has %s", ft[0], ft[1], fam.pstr(sc.edgeR[e]), fam.pstr(sc.edgeK[e])), "", calls, rounds
		}
	}
	// the fixpoint equations, on the real result alone
	for i := 0; i < n; i++ {
		if len(gi.preds[i]) == 0 {
			continue
		}
		acc := l.Ident()
		for _, e := range gi.preds[i] {
			acc = merge(acc, sc.edgeR[e])
		}
		if !equals(acc, sc.inR[i]) {
			return fmt.Sprintf("In(%d) = %s is not the merge of its incoming edge facts (%s)", i, fam.pstr(sc.inR[i]), fam.pstr(acc)), "", calls, rounds
		}
	}
	for k, nd := range gi.zeroPred {
		if !equals(sc.inR[nd], entryFact(k)) {
			return fmt.Sprintf("In(%d) = %s of a zero-predecessor node is not its entry fact %s", nd, fam.pstr(sc.inR[nd]), fam.pstr(entryFact(k))), "", calls, rounds
		}
	}
	for e, ft := range gi.edges {
		if want := fam.tfs[labels[e]](sc.inR[ft[0]]); !equals(want, sc.edgeR[e]) {
			return fmt.Sprintf("Edge(%d,%d) = %s is not transfer(In(%d)) = %s", ft[0], ft[1], fam.pstr(sc.edgeR[e]), ft[0], fam.pstr(want)), "", calls, rounds
		}
	}
	return "", "", calls, rounds
}

func c13Describe[F any](fam *c13Fam[F], gi *c13GraphInfo, c c13DenseCase) string {
	var b strings.Builder
	fmt.Fprintf(&b, "family %s, graph %s handed over as %s; transfers:", fam.name, gi.g, c13VariantNames[c.Variant])
	for e, ft := range gi.edges {
		if len(gi.edges) > 16 && c.Labels[e] == 0 {
			continue // large graph: every edge not listed carries the family's first transfer (id)
		}
		fmt.Fprintf(&b, " %d>%d:%s", ft[0], ft[1], fam.tnames[c.Labels[e]])
	}
	if len(gi.edges) > 16 {
		b.WriteString(" (all other edges: " + fam.tnames[0] + ")")
	}
	b.WriteString("; entry:")
	for k, nd := range gi.zeroPred {
		if c.Entry[k] < 0 {
			fmt.Fprintf(&b, " %d:absent", nd)
		} else {
			fmt.Fprintf(&b, " %d:%s", nd, fam.pstr(fam.points[c.Entry[k]]))
		}
	}
	return b.String()
}

type c13DenseStats struct {
	cases, calls, nontrivial, cyclicCases int64
}

// c13DenseGraph enumerates every labelling x entry assignment x variant of one graph.
func c13DenseGraph[L dfa.Semilattice[F], F any](fam *c13Fam[F], gi *c13GraphInfo, variants []int, res *vx.Result) {
	var sc c13Scratch[F]
	var st c13DenseStats
	ne, nz := len(gi.edges), len(gi.zeroPred)
	labels := make([]int, ne)
	entry := make([]int, nz)
	T, P := len(fam.tfs), len(fam.points)
	var sample *c13DenseCase
	for {
		for k := range entry {
			entry[k] = -1
		}
		for {
			for _, v := range variants {
				msg, herr, calls, rounds := c13DenseRun[L](fam, gi, labels, entry, v, &sc)
				st.cases++
				st.calls += int64(calls)
				if herr != "" {
					res.Note("harness error in %s %s: %s", fam.name, gi.g, herr)
					res.NotExhaustive("harness error (see notes)")
					return
				}
				if gi.cyclic {
					st.cyclicCases++
					if rounds > 1 {
						st.nontrivial++
						if sample == nil && v == c13VarPlain && ne >= 2 {
							sample = &c13DenseCase{"dense", fam.name, gi.g, slices.Clone(labels), slices.Clone(entry), v}
						}
					}
				}
				if msg != "" {
					c := c13DenseCase{"dense", fam.name, gi.g, slices.Clone(labels), slices.Clone(entry), v}
					c13Violate(c13Key(c.key()), msg+" — "+c13Describe(fam, gi, c), c)
				}
			}
			// next entry assignment
			k := 0
			for ; k < nz; k++ {
				entry[k]++
				if entry[k] < P {
					break
				}
				entry[k] = -1
			}
			if k == nz {
				break
			}
		}
		if c13Stop.Load() {
			break
		}
		// next labelling
		e := 0
		for ; e < ne; e++ {
			labels[e]++
			if labels[e] < T {
				break
			}
			labels[e] = 0
		}
		if e == ne {
			break
		}
	}
	res.Eval(st.cases)
	res.NontrivialN(st.nontrivial)
	res.Count("dense_cases_"+fam.name, st.cases)
	res.Count("dense_cases_on_cyclic_graphs", st.cyclicCases)
	res.Count("dense_transfer_calls_by_real_solver", st.calls)
	res.Count("dense_graphs_"+fam.name, 1)
	c13AddStates(st.cases, st.calls, st.cases)
	if sample != nil && gi.g.N >= 3 {
		res.Sample(map[string]any{"case": sample, "text": c13Describe(fam, gi, *sample)})
	}
}

// ---------------------------------------------------------------------------------------------
// families

func c13FamGK1() *c13Fam[uint8] {
	return &c13Fam[uint8]{
		name: "genkill1", height: 1, points: []uint8{0, 1},
		pstr:   func(f uint8) string { return fmt.Sprintf("0b%01b", f) },
		tfs:    []func(uint8) uint8{func(f uint8) uint8 { return f }, func(f uint8) uint8 { return f | 1 }, func(f uint8) uint8 { return f &^ 1 }},
		tnames: []string{"id", "set", "clear"},
	}
}

func c13FamGK2() *c13Fam[uint8] {
	fam := &c13Fam[uint8]{name: "genkill2", height: 2, points: []uint8{0, 1, 2, 3},
		pstr: func(f uint8) string { return fmt.Sprintf("0b%02b", f) }}
	ops := []string{"id", "set", "clear"}
	bit := func(op int, f, m uint8) uint8 {
		switch op {
		case 1:
			return m
		case 2:
			return 0
		}
		return f & m
	}
	for a := 0; a < 3; a++ {
		for b := 0; b < 3; b++ {
			fam.tfs = append(fam.tfs, func(f uint8) uint8 { return bit(a, f, 1) | bit(b, f, 2) })
			fam.tnames = append(fam.tnames, ops[a]+"0/"+ops[b]+"1")
		}
	}
	return fam
}

func c13FlatStr(f uint8) string {
	switch f {
	case 0:
		return "bot"
	case c13Top:
		return "top"
	}
	return fmt.Sprint(f - 1)
}

// constant propagation over {bot, 0, 1, top}: constants are encoded 1 (=0) and 2 (=1).
func c13FamCP() *c13Fam[uint8] {
	return &c13Fam[uint8]{
		name: "constprop", height: 2, points: []uint8{0, 1, 2, c13Top}, pstr: c13FlatStr,
		tfs: []func(uint8) uint8{
			func(f uint8) uint8 { return f },
			func(f uint8) uint8 { return 1 },
			func(f uint8) uint8 { return 2 },
			func(f uint8) uint8 {
				switch f {
				case 1:
					return 2
				case 2:
					return 1
				}
				return f
			},
		},
		tnames: []string{"id", "const0", "const1", "+1mod2"},
	}
}

var c13NilNames = [...]string{"_", "Never", "Always", "Global", "Maybe"}

func c13VNStr(v ValueNilness) string {
	return "(" + c13NilNames[v.Inner] + "," + c13NilNames[v.Outer] + ")"
}

func c13AllVN() []ValueNilness {
	var out []ValueNilness
	for i := Nilness(0); i < 5; i++ {
		for o := Nilness(0); o < 5; o++ {
			out = append(out, ValueNilness{Inner: i, Outer: o})
		}
	}
	return out
}

// nilness-style transfers over one tracked value, on the real lattice. All monotone with
// respect to the order induced by the real latticeMerge (constants, joins with a constant,
// bottom-strict refinements that keep or copy one component).
func c13FamNil() *c13Fam[ValueNilness] {
	l := lattice{}
	bot := ValueNilness{}
	return &c13Fam[ValueNilness]{
		name: "nilness", height: 6, points: c13AllVN(), pstr: c13VNStr,
		tfs: []func(ValueNilness) ValueNilness{
			func(v ValueNilness) ValueNilness { return v },
			func(v ValueNilness) ValueNilness { return ValueNilness{AlwaysNil, AlwaysNil} }, // x = nil
			func(v ValueNilness) ValueNilness { // branch x != nil
				if v == bot {
					return v
				}
				return ValueNilness{Inner: v.Inner, Outer: NeverNil}
			},
			func(v ValueNilness) ValueNilness { return l.Merge(v, ValueNilness{Outer: MaybeNilGlobal}) }, // x may also be a global
			func(v ValueNilness) ValueNilness { // x = any(x)
				if v == bot {
					return v
				}
				return ValueNilness{Inner: v.Outer, Outer: NeverNil}
			},
			func(v ValueNilness) ValueNilness { return ValueNilness{MaybeNil, MaybeNil} }, // x = f()
		},
		tnames: []string{"id", "x=nil", "x!=nil", "x|=global", "x=any(x)", "x=f()"},
	}
}

type c13NilMapL = dfa.DenseMapLattice[ValueNilness, lattice]

// c13FamNilMap: the exact instantiation nilness.go hands to dense.Forward: facts are slices
// indexed by value number (x=0, y=1); transfers copy on write and extend the slice the way
// state.set does, so different representations of the same element (trailing identities,
// nil vs short slices) meet in the solver.
func c13FamNilMap() *c13Fam[[]ValueNilness] {
	bot := ValueNilness{}
	get := func(f []ValueNilness, i int) ValueNilness {
		if i < len(f) {
			return f[i]
		}
		return bot
	}
	set := func(f []ValueNilness, i int, v ValueNilness) []ValueNilness {
		out := make([]ValueNilness, max(len(f), i+1))
		copy(out, f)
		out[i] = v
		return out
	}
	fam := &c13Fam[[]ValueNilness]{
		name: "nilness-densemap", height: 12,
		pstr: func(f []ValueNilness) string {
			if f == nil {
				return "nil"
			}
			var s []string
			for _, v := range f {
				s = append(s, c13VNStr(v))
			}
			return "[" + strings.Join(s, " ") + "]"
		},
		tfs: []func([]ValueNilness) []ValueNilness{
			func(f []ValueNilness) []ValueNilness { return f },
			func(f []ValueNilness) []ValueNilness { return set(f, 0, ValueNilness{AlwaysNil, AlwaysNil}) }, // x = nil
			func(f []ValueNilness) []ValueNilness { // branch x != nil
				if get(f, 0) == bot {
					return f
				}
				return set(f, 0, ValueNilness{Inner: get(f, 0).Inner, Outer: NeverNil})
			},
			func(f []ValueNilness) []ValueNilness { return set(f, 1, get(f, 0)) },                     // y = x
			func(f []ValueNilness) []ValueNilness { return set(f, 0, get(f, 1)) },                     // x = y
			func(f []ValueNilness) []ValueNilness { return set(f, 1, ValueNilness{Outer: NeverNil}) }, // y = new(T)
		},
		tnames: []string{"id", "x=nil", "x!=nil", "y=x", "x=y", "y=new"},
	}
	fam.refMerge, fam.refEquals = c13RefDenseOps[lattice, ValueNilness]()
	elems := []ValueNilness{{}, {Outer: NeverNil}, {Outer: AlwaysNil}, {Outer: MaybeNil}}
	fam.points = append(fam.points, nil)
	for _, a := range elems {
		fam.points = append(fam.points, []ValueNilness{a})
	}
	for _, a := range elems {
		for _, b := range elems {
			fam.points = append(fam.points, []ValueNilness{a, b})
		}
	}
	return fam
}

// ---------------------------------------------------------------------------------------------
// bounds and driver

// c13Bound: all digraphs with n nodes and at most maxEdges edges, in the given variants.
type c13Bound struct {
	n, maxEdges int
	variants    []int
}

func c13Graphs(n, maxEdges int) []*c13GraphInfo {
	var out []*c13GraphInfo
	total := uint64(1) << uint(n*n)
	for ne := 0; ne <= maxEdges && ne <= n*n; ne++ {
		for m := uint64(0); m < total; m++ {
			if bits.OnesCount64(m) == ne {
				out = append(out, c13Info(c13FromMask(n, m)))
			}
		}
	}
	return out
}

type c13Job struct {
	fam    string
	weight float64
	run    func()
}

func c13DenseJobs[L dfa.Semilattice[F], F any](fam *c13Fam[F], bounds []c13Bound, res *vx.Result) []c13Job {
	var jobs []c13Job
	for _, b := range bounds {
		for _, gi := range c13Graphs(b.n, b.maxEdges) {
			w := float64(len(b.variants))
			for range gi.edges {
				w *= float64(len(fam.tfs))
			}
			for range gi.zeroPred {
				w *= float64(len(fam.points) + 1)
			}
			jobs = append(jobs, c13Job{fam.name, w, func() { c13DenseGraph[L](fam, gi, b.variants, res) }})
		}
	}
	return jobs
}

var c13DenseBound string

// c13DenseReplay re-runs exactly one dense case.
func c13DenseReplay(raw json.RawMessage, res *vx.Result) {
	gk1, gk2, cp, nl, nm := c13FamGK1(), c13FamGK2(), c13FamCP(), c13FamNil(), c13FamNilMap()
	var c c13DenseCase
	json.Unmarshal(raw, &c)
	gi := c13Info(c.Graph)
	if len(c.Labels) != len(gi.edges) || len(c.Entry) != len(gi.zeroPred) || c.Variant < 0 || c.Variant >= c13NumVariants ||
		(c.Graph.N > 8 && c.Variant == c13VarString) || c.Graph.N > 256 {
		res.Note("replay file does not describe a dense case of this harness")
		return
	}
	var msg string
	var text string
	switch c.Fam {
	case gk1.name:
		msg, _, _, _ = c13DenseRun[c13Bits](gk1, gi, c.Labels, c.Entry, c.Variant, &c13Scratch[uint8]{})
		text = c13Describe(gk1, gi, c)
	case gk2.name:
		msg, _, _, _ = c13DenseRun[c13Bits](gk2, gi, c.Labels, c.Entry, c.Variant, &c13Scratch[uint8]{})
		text = c13Describe(gk2, gi, c)
	case cp.name:
		msg, _, _, _ = c13DenseRun[c13Flat](cp, gi, c.Labels, c.Entry, c.Variant, &c13Scratch[uint8]{})
		text = c13Describe(cp, gi, c)
	case nl.name:
		msg, _, _, _ = c13DenseRun[lattice](nl, gi, c.Labels, c.Entry, c.Variant, &c13Scratch[ValueNilness]{})
		text = c13Describe(nl, gi, c)
	case nm.name:
		msg, _, _, _ = c13DenseRun[c13NilMapL](nm, gi, c.Labels, c.Entry, c.Variant, &c13Scratch[[]ValueNilness]{})
		text = c13Describe(nm, gi, c)
	case "and-densemap":
		am := c13FamAndMap()
		msg, _, _, _ = c13DenseRun[c13AndMapL](am, gi, c.Labels, c.Entry, c.Variant, &c13Scratch[[]uint8]{})
		text = c13Describe(am, gi, c)
	case "flatnz-densemap":
		fm := c13FamFlatNZMap()
		msg, _, _, _ = c13DenseRun[c13NZMapL](fm, gi, c.Labels, c.Entry, c.Variant, &c13Scratch[[]uint8]{})
		text = c13Describe(fm, gi, c)
	}
	res.Eval(1)
	c13AddStates(1, 1, 1)
	if msg != "" {
		res.Violate(c13Key(c.key()), msg+" — "+text, c)
	}
}

func c13DenseMain(t *testing.T, res *vx.Result) {
	gk1, gk2, cp, nl, nm := c13FamGK1(), c13FamGK2(), c13FamCP(), c13FamNil(), c13FamNilMap()
	all := []int{c13VarPlain, c13VarCompact, c13VarString, c13VarDouble}
	plain := []int{c13VarPlain}
	type B = c13Bound
	var jobs []c13Job
	if vx.Thorough() {
		jobs = append(jobs, c13DenseJobs[c13Bits](gk1, []B{{1, 1, all}, {2, 4, all}, {3, 9, all}, {4, 7, plain}, {5, 4, plain}}, res)...)
		jobs = append(jobs, c13DenseJobs[c13Flat](cp, []B{{1, 1, all}, {2, 4, all}, {3, 9, all}, {4, 6, plain}}, res)...)
		jobs = append(jobs, c13DenseJobs[c13Bits](gk2, []B{{1, 1, all}, {2, 4, all}, {3, 6, plain}, {4, 3, plain}}, res)...)
		jobs = append(jobs, c13DenseJobs[lattice](nl, []B{{1, 1, all}, {2, 4, all}, {3, 6, plain}, {4, 1, plain}}, res)...)
		jobs = append(jobs, c13DenseJobs[c13NilMapL](nm, []B{{1, 1, all}, {2, 4, all}, {3, 6, plain}, {4, 1, plain}}, res)...)
		jobs = append(jobs, c13DenseJobs[c13AndMapL](c13FamAndMap(), []B{{1, 1, all}, {2, 4, all}, {3, 5, plain}}, res)...)
		jobs = append(jobs, c13DenseJobs[c13NZMapL](c13FamFlatNZMap(), []B{{1, 1, all}, {2, 4, all}, {3, 5, plain}}, res)...)
		c13DenseBound = "and-densemap and flatnz-densemap (element identity != zero value) <=2 nodes all x4 shapes, 3 nodes <=5 edges; " + c13LargeBound + "; dense: genkill1 <=3 nodes all graphs x4 shapes, 4 nodes <=7 edges, 5 nodes <=4 edges; constprop <=3 nodes all graphs x4 shapes, 4 nodes <=6 edges; genkill2 <=2 nodes all x4 shapes, 3 nodes <=6 edges, 4 nodes <=3 edges; nilness and nilness-densemap <=2 nodes all x4 shapes, 3 nodes <=6 edges, 4 nodes <=1 edge; every entry fact (and 'absent') at every zero-predecessor node"
	} else {
		jobs = append(jobs, c13DenseJobs[c13Bits](gk1, []B{{1, 1, all}, {2, 4, all}, {3, 9, all}, {4, 6, plain}}, res)...)
		jobs = append(jobs, c13DenseJobs[c13Flat](cp, []B{{1, 1, all}, {2, 4, all}, {3, 9, plain}, {4, 4, plain}}, res)...)
		jobs = append(jobs, c13DenseJobs[c13Bits](gk2, []B{{1, 1, all}, {2, 4, all}, {3, 4, plain}, {4, 2, plain}}, res)...)
		jobs = append(jobs, c13DenseJobs[lattice](nl, []B{{1, 1, all}, {2, 4, plain}, {3, 4, plain}}, res)...)
		jobs = append(jobs, c13DenseJobs[c13NilMapL](nm, []B{{1, 1, all}, {2, 4, plain}, {3, 4, plain}}, res)...)
		jobs = append(jobs, c13DenseJobs[c13AndMapL](c13FamAndMap(), []B{{1, 1, all}, {2, 4, plain}, {3, 3, plain}}, res)...)
		jobs = append(jobs, c13DenseJobs[c13NZMapL](c13FamFlatNZMap(), []B{{1, 1, all}, {2, 4, plain}, {3, 3, plain}}, res)...)
		c13DenseBound = "and-densemap and flatnz-densemap (element identity != zero value) <=2 nodes all, 3 nodes <=3 edges; " + c13LargeBound + "; dense: genkill1 <=3 nodes all graphs x4 shapes, 4 nodes <=6 edges; constprop <=2 nodes x4 shapes, 3 nodes all graphs, 4 nodes <=4 edges; genkill2 <=2 nodes all x4 shapes, 3 nodes <=4 edges, 4 nodes <=2 edges; nilness and nilness-densemap <=2 nodes all, 3 nodes <=4 edges; every entry fact (and 'absent') at every zero-predecessor node"
	}
	jobs = append(jobs, c13LargeJobs(gk2, cp, res)...)
	if f := os.Getenv("C13_FAMS"); f != "" { // development aid: restrict to some families
		var keep []c13Job
		for _, j := range jobs {
			if strings.Contains(f, j.fam) {
				keep = append(keep, j)
			}
		}
		jobs = keep
		res.NotExhaustive("restricted by C13_FAMS")
	}
	// smallest first; the pool keeps that order approximately
	slices.SortStableFunc(jobs, func(a, b c13Job) int {
		switch {
		case a.weight < b.weight:
			return -1
		case a.weight > b.weight:
			return 1
		}
		return 0
	})
	var totalW float64
	for _, j := range jobs {
		totalW += j.weight
	}
	t.Logf("dense: %d (family,graph) jobs, %.0f cases", len(jobs), totalW)
	res.SetBudget(vx.Pick(12*time.Minute, 45*time.Minute)) // safety net only; the bounds are sized for ~35 s / ~8 min on 16 free cores
	if d, err := time.ParseDuration(os.Getenv("C13_BUDGET")); err == nil {
		res.SetBudget(d)
	}
	start := time.Now()
	var wg sync.WaitGroup
	var expired atomic.Bool
	work := make(chan c13Job, 64)
	for w := 0; w < runtime.GOMAXPROCS(0); w++ {
		wg.Add(1)
		go func() {
			defer wg.Done()
			for j := range work {
				if c13Stop.Load() {
					continue
				}
				if res.Expired() {
					expired.Store(true)
					continue
				}
				j.run()
			}
		}()
	}
	for _, j := range jobs {
		work <- j
	}
	close(work)
	wg.Wait()
	if expired.Load() {
		res.NotExhaustive("dense enumeration stopped at its time budget")
	}
	if c13Stop.Load() {
		res.NotExhaustive(fmt.Sprintf("enumeration stopped after %d violations", c13MaxViolations))
	}
	t.Logf("dense: done in %v", time.Since(start))
}
