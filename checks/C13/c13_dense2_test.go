//go:build verif

package nilness

// C13, dense part, second file:
//
//  1. dense-map facts over element lattices whose identity is NOT the zero value of the element
//     type (an intersection lattice with identity 0xFF, a flat lattice whose bottom is encoded
//     as 7 and whose zero value is the constant 0), with transfer functions that grow the map, so
//     that joins see inputs of different lengths. The reference model merges these facts with a
//     pointwise merge written here (it does not call dfa.DenseMapLattice).
//  2. large graphs aimed at the 64-bit word boundaries of the solver's bitmaps: chains of
//     63..130 nodes with one or two back edges and an optional forward skip edge whose end
//     points lie around the multiples of 64.

import (
	"fmt"
	"slices"
	"strings"

	"honnef.co/go/tools/analysis/dfa"
	"honnef.co/go/tools/internal/verifx/vx"
)

type (
	c13AndMapL = dfa.DenseMapLattice[uint8, c13And]
	c13NZMapL  = dfa.DenseMapLattice[uint8, c13FlatNZ]
)

// c13RefDenseMerge / c13RefDenseEquals: the dense-map lattice over element lattice E as the
// reference model understands it: missing keys are the identity.
func c13RefDenseOps[E dfa.Semilattice[T], T any]() (merge func(a, b []T) []T, equals func(a, b []T) bool) {
	var l E
	at := func(s []T, i int) T {
		if i < len(s) {
			return s[i]
		}
		return l.Ident()
	}
	merge = func(a, b []T) []T {
		n := max(len(a), len(b))
		if n == 0 {
			return nil
		}
		out := make([]T, n)
		for i := range out {
			out[i] = l.Merge(at(a, i), at(b, i))
		}
		return out
	}
	equals = func(a, b []T) bool {
		for i := range max(len(a), len(b)) {
			if !l.Equals(at(a, i), at(b, i)) {
				return false
			}
		}
		return true
	}
	return
}

// c13FamNZMap: two tracked keys x (0) and y (1) over element lattice E; the transfers write
// keys and extend the slice (padding gaps with the identity, as a user of DenseMapLattice
// with a non-zero identity must).
func c13FamNZMap[E dfa.Semilattice[uint8]](name string, k1, k2, k3 uint8, slotHeight int, estr func(uint8) string) *c13Fam[[]uint8] {
	var l E
	id := l.Ident()
	get := func(f []uint8, i int) uint8 {
		if i < len(f) {
			return f[i]
		}
		return id
	}
	set := func(f []uint8, i int, v uint8) []uint8 {
		out := make([]uint8, max(len(f), i+1))
		for j := range out {
			out[j] = id
		}
		copy(out, f)
		out[i] = v
		return out
	}
	fam := &c13Fam[[]uint8]{
		name: name, height: 2 * slotHeight,
		pstr: func(f []uint8) string {
			if f == nil {
				return "nil"
			}
			var s []string
			for _, v := range f {
				s = append(s, estr(v))
			}
			return "[" + strings.Join(s, " ") + "]"
		},
		tfs: []func([]uint8) []uint8{
			func(f []uint8) []uint8 { return f },
			func(f []uint8) []uint8 { return set(f, 0, k1) },
			func(f []uint8) []uint8 { return set(f, 0, k2) },
			func(f []uint8) []uint8 { return set(f, 1, get(f, 0)) },
			func(f []uint8) []uint8 { return set(f, 1, k3) },
			func(f []uint8) []uint8 { return set(f, 0, l.Merge(get(f, 0), get(f, 1))) },
		},
		tnames: []string{"id", "x=" + estr(k1), "x=" + estr(k2), "y=x", "y=" + estr(k3), "x=x^y"},
	}
	fam.refMerge, fam.refEquals = c13RefDenseOps[E, uint8]()
	elems := []uint8{id, k1, k2}
	fam.points = append(fam.points, nil)
	for _, a := range elems {
		fam.points = append(fam.points, []uint8{a})
	}
	for _, a := range elems {
		for _, b := range elems {
			fam.points = append(fam.points, []uint8{a, b})
		}
	}
	return fam
}

func c13AndStr(v uint8) string {
	if v == 0xFF {
		return "ALL"
	}
	return fmt.Sprintf("%02b", v)
}

func c13NZStr(v uint8) string {
	switch v {
	case c13NZBot:
		return "bot"
	case c13NZTop:
		return "top"
	}
	return fmt.Sprintf("c%d", v)
}

// intersection lattice: per key ALL > 11 > 01 > 00 is the longest chain (height 3)
func c13FamAndMap() *c13Fam[[]uint8] {
	return c13FamNZMap[c13And]("and-densemap", 0b01, 0b10, 0b11, 3, c13AndStr)
}

// flat lattice with non-zero bottom: constants 0 (the zero value) and 1
func c13FamFlatNZMap() *c13Fam[[]uint8] {
	return c13FamNZMap[c13FlatNZ]("flatnz-densemap", 0, 1, 0, 2, c13NZStr)
}

// ---------------------------------------------------------------------------------------------
// large graphs at word boundaries

// c13Window: 0, n-1 and every node within r of a multiple of 64.
func c13Window(n, r int) []int {
	set := map[int]bool{0: true, n - 1: true}
	for m := 64; m-r < n; m += 64 {
		for d := -r; d <= r; d++ {
			if v := m + d; v >= 0 && v < n {
				set[v] = true
			}
		}
	}
	var out []int
	for v := range set {
		out = append(out, v)
	}
	slices.Sort(out)
	return out
}

// c13Chain builds the chain 0>1>...>n-1 plus extra edges.
func c13Chain(n int, extra [][2]int) c13Graph {
	g := c13Graph{N: n, Succs: make([][]int, n)}
	for i := 0; i+1 < n; i++ {
		g.Succs[i] = append(g.Succs[i], i+1)
	}
	for _, e := range extra {
		if !slices.Contains(g.Succs[e[0]], e[1]) {
			g.Succs[e[0]] = append(g.Succs[e[0]], e[1])
		}
	}
	for i := range g.Succs {
		slices.Sort(g.Succs[i])
	}
	return g
}

// c13LargeGraph runs every labelling of the large-graph family on one graph: back edges
// backs[0] (and backs[1]), optional skip edge; all chain edges carry id except the edge that
// leaves the head of the first loop.
//
// genkill2 (transfer index = 3*op(bit0)+op(bit1), op 0 id / 1 set / 2 clear): entry {absent, 01};
// first back edge {set bit0, id}; second {set bit1, id}; loop-head edge {id, set bit1, clear bit0}.
// constprop (0 id, 1 const0, 2 const1, 3 +1mod2): entry {absent, 0}; first back edge {id, +1, const1};
// second {+1, const1}; loop-head edge {id, +1}.
func c13LargeGraph(gk2, cp *c13Fam[uint8], g c13Graph, backs [][2]int, res *vx.Result) {
	gi := c13Info(g)
	ne := len(gi.edges)
	var head = -1 // edge v>v+1 leaving the head of the first loop, if the loop has a body
	if u, v := backs[0][0], backs[0][1]; v < u {
		head = gi.edge(v, v+1)
	}
	b1 := gi.edge(backs[0][0], backs[0][1])
	b2 := -1
	if len(backs) > 1 {
		b2 = gi.edge(backs[1][0], backs[1][1])
	}
	type opts struct{ entry, b1, b2, head []int }
	run := func(name string, o opts, eval func(labels, entry []int, v int) (string, string, int, int), describe func(c c13DenseCase) string) {
		var st c13DenseStats
		var nontrivial int64
		if b2 < 0 {
			o.b2 = []int{0}
		}
		if head < 0 {
			o.head = []int{0}
		}
		if len(gi.zeroPred) == 0 {
			o.entry = nil
		}
		labels := make([]int, ne)
		for _, l1 := range o.b1 {
			for _, l2 := range o.b2 {
				for _, lh := range o.head {
					for i := range labels {
						labels[i] = 0
					}
					if head >= 0 {
						labels[head] = lh
					}
					labels[b1] = l1
					if b2 >= 0 {
						labels[b2] = l2
					}
					entries := [][]int{{}}
					if len(gi.zeroPred) == 1 {
						entries = nil
						for _, e := range o.entry {
							entries = append(entries, []int{e})
						}
					}
					for _, entry := range entries {
						for _, v := range []int{c13VarPlain, c13VarCompact} {
							msg, herr, calls, rounds := eval(labels, entry, v)
							st.cases++
							st.calls += int64(calls)
							if herr != "" {
								res.Note("harness error in large %s %s: %s", name, gi.g, herr)
								res.NotExhaustive("harness error (see notes)")
								return
							}
							st.cyclicCases++
							if rounds > 1 {
								nontrivial++
							}
							if msg != "" {
								c := c13DenseCase{"dense", name, gi.g, slices.Clone(labels), slices.Clone(entry), v}
								c13Violate(c13Key(c.key()), msg+" — "+describe(c), c)
							}
						}
					}
				}
			}
		}
		res.Eval(st.cases)
		res.NontrivialN(nontrivial)
		res.Count("dense_large_cases_"+name, st.cases)
		res.Count("dense_large_cases_needing_more_than_one_round", nontrivial)
		res.Count("dense_transfer_calls_by_real_solver", st.calls)
		c13AddStates(st.cases, st.calls, st.cases)
	}
	var scG, scC c13Scratch[uint8]
	run(gk2.name, opts{entry: []int{-1, 1}, b1: []int{3, 0}, b2: []int{1, 0}, head: []int{0, 1, 6}},
		func(labels, entry []int, v int) (string, string, int, int) {
			return c13DenseRun[c13Bits](gk2, gi, labels, entry, v, &scG)
		}, func(c c13DenseCase) string { return c13Describe(gk2, gi, c) })
	run(cp.name, opts{entry: []int{-1, 1}, b1: []int{0, 3, 2}, b2: []int{3, 2}, head: []int{0, 3}},
		func(labels, entry []int, v int) (string, string, int, int) {
			return c13DenseRun[c13Flat](cp, gi, labels, entry, v, &scC)
		}, func(c c13DenseCase) string { return c13Describe(cp, gi, c) })
	res.Count("dense_large_graphs", 1)
}

var c13LargeNs = []int{63, 64, 65, 66, 127, 128, 129, 130}

const c13LargeBound = "large graphs: chains of 63, 64, 65, 66, 127, 128, 129, 130 nodes (plain Graph[int] and CompactGraph) with one back edge u>v, v<=u, both ends in {0, n-1, 64k-3..64k+3} x skip edge {none, v>u, v-1>u+1}, and with two back edges with all four ends in {0, n-1, 64k-1..64k+1}; genkill2 and constprop labellings of the back edges and the loop-head edge x entry fact at node 0"

func c13LargeJobs(gk2, cp *c13Fam[uint8], res *vx.Result) []c13Job {
	var jobs []c13Job
	add := func(n int, backs [][2]int, extra [][2]int) {
		g := c13Chain(n, append(slices.Clone(backs), extra...))
		bs := slices.Clone(backs)
		jobs = append(jobs, c13Job{"large", 1e4 + float64(n), func() { c13LargeGraph(gk2, cp, g, bs, res) }})
	}
	for _, n := range c13LargeNs {
		w := c13Window(n, 3)
		for _, u := range w {
			for _, v := range w {
				if v > u {
					continue
				}
				add(n, [][2]int{{u, v}}, nil)
				if u >= v+2 {
					add(n, [][2]int{{u, v}}, [][2]int{{v, u}}) // forward edge bypassing the loop body
				}
				if v >= 1 && u+1 < n && u+1 >= v-1+2 {
					add(n, [][2]int{{u, v}}, [][2]int{{v - 1, u + 1}}) // forward edge jumping over the loop
				}
			}
		}
		w1 := c13Window(n, 1)
		var pairs [][2]int
		for _, u := range w1 {
			for _, v := range w1 {
				if v <= u {
					pairs = append(pairs, [2]int{u, v})
				}
			}
		}
		for i := range pairs {
			for j := i + 1; j < len(pairs); j++ {
				add(n, [][2]int{pairs[i], pairs[j]}, nil)
			}
		}
	}
	return jobs
}
