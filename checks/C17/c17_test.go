//go:build verif

package unused_test

// C17: U1000 verdicts are order-independent, monotone, merged over variants.
//
//	(a) every package of the bounded family (gen_test.go, shared with C07) is laid out in every
//	    permutation of its top-level declarations, as one file and split over two files handed to
//	    the analyzer in both orders; the set of reported objects (declaration, kind, name) must be one
//	    value, also when the analysis is repeated on the same and on a freshly checked package;
//	(b) for every used function X of the package and every object Y a well-typed reference
//	    X -> Y is added: whatever was used stays used;
//	(c) every 3-object package x each object referenced {from the package, only from an in-package
//	    _test.go file, from nowhere} goes through the real staticcheck binary with -tests; the
//	    U1000 lines must be exactly the objects that the analyzer reports in *both* variants
//	    (`p` and `p [p.test]`), i.e. the real merge in lintcmd.

import (
	"bufio"
	"bytes"
	"encoding/json"
	"fmt"
	"os"
	"os/exec"
	"path/filepath"
	"regexp"
	"runtime"
	"runtime/debug"
	"sort"
	"strconv"
	"strings"
	"sync"
	"sync/atomic"
	"testing"
	"time"

	"honnef.co/go/tools/internal/verifx/vx"
	"honnef.co/go/tools/unused"
)

// ---------------------------------------------------------------------------------------------
// layouts

type c17Layout struct {
	Perm  []int `json:"perm"`  // Perm[k] = index (in object order) of the k-th declaration
	Files int   `json:"files"` // 1 or 2
	Swap  bool  `json:"swap"`  // two files handed over as [b.go, a.go]
}

func (l c17Layout) String() string {
	p := make([]string, len(l.Perm))
	for i, x := range l.Perm {
		p[i] = strconv.Itoa(x)
	}
	s := "perm=" + strings.Join(p, ".") + ",files=" + strconv.Itoa(l.Files)
	if l.Swap {
		s += ",swapped"
	}
	return s
}

type c17File struct {
	vgSrcFile
	starts []int // first line of each declaration in this file
	objs   []int // object index of each declaration
}

// c17Files lays the declarations out. Every file is "package p", then each declaration
// preceded by an empty line.
func c17Files(decls []vgDecl, l c17Layout, dir string) []c17File {
	k := len(l.Perm)
	cut := k
	if l.Files == 2 {
		cut = (k + 1) / 2
	}
	mk := func(name string, part []int) c17File {
		f := c17File{}
		f.Name = filepath.Join(dir, name)
		var b strings.Builder
		b.WriteString("package p\n")
		line := 2
		for _, di := range part {
			b.WriteString("\n")
			line++
			f.starts = append(f.starts, line)
			f.objs = append(f.objs, decls[di].Obj)
			b.WriteString(decls[di].Src + "\n")
			line += strings.Count(decls[di].Src, "\n") + 1
		}
		f.Src = b.String()
		return f
	}
	files := []c17File{mk("a.go", l.Perm[:cut])}
	if l.Files == 2 {
		files = append(files, mk("b.go", l.Perm[cut:]))
		if l.Swap {
			files[0], files[1] = files[1], files[0]
		}
	}
	return files
}

// c17Label names an object independently of where its declaration was put: the object index of
// the enclosing top-level declaration, kind and name.
func c17Label(files []c17File, o unused.Object) string {
	for _, f := range files {
		if f.Name != o.Position.Filename {
			continue
		}
		d := -1
		for k, st := range f.starts {
			if o.Position.Line >= st {
				d = f.objs[k]
			}
		}
		return strconv.Itoa(d) + ":" + o.Kind + " " + o.Name
	}
	return "?:" + o.Kind + " " + o.Name
}

type c17Verdict struct {
	Unused []string
	Used   []string
}

func c17Labels(files []c17File, objs []unused.Object) []string {
	out := make([]string, 0, len(objs))
	for _, o := range objs {
		out = append(out, c17Label(files, o))
	}
	sort.Strings(out)
	return out
}

func c17SrcFiles(files []c17File) []vgSrcFile {
	out := make([]vgSrcFile, len(files))
	for i, f := range files {
		out[i] = f.vgSrcFile
	}
	return out
}

// c17Analyze checks the files and runs the analyzer `runs` times on the same checked package.
func c17Analyze(files []c17File, runs int) (vs []c17Verdict, typeErr error, panicMsg string) {
	c, errs := vgCheck("p", c17SrcFiles(files), nil)
	if len(errs) > 0 {
		return nil, errs[0], ""
	}
	for r := 0; r < runs; r++ {
		var ur unused.Result
		if msg := vx.Catch(func() {
			var err error
			ur, err = vgRunUnused(c)
			if err != nil {
				panic(err)
			}
		}); msg != "" {
			return nil, nil, msg
		}
		vs = append(vs, c17Verdict{Unused: c17Labels(files, ur.Unused), Used: c17Labels(files, ur.Used)})
	}
	return vs, nil, ""
}

func c17Eq(a, b []string) bool {
	if len(a) != len(b) {
		return false
	}
	for i := range a {
		if a[i] != b[i] {
			return false
		}
	}
	return true
}

// c17SubMultiset: every element of a occurs in b at least as often.
func c17SubMultiset(a, b []string) (missing string, ok bool) {
	cnt := map[string]int{}
	for _, x := range b {
		cnt[x]++
	}
	for _, x := range a {
		if cnt[x] == 0 {
			return x, false
		}
		cnt[x]--
	}
	return "", true
}

type c17Case struct {
	Part     string     `json:"part"`
	Spec     *vgSpec    `json:"spec,omitempty"`
	Specs    []*vgSpec  `json:"specs,omitempty"`
	GI       *vgGISpec  `json:"gi,omitempty"`
	SP       *vgSPSpec  `json:"sp,omitempty"`
	EC       *vgECSpec  `json:"ec,omitempty"`
	Layout   *c17Layout `json:"layout,omitempty"`
	X        int        `json:"x,omitempty"`
	Ref      string     `json:"ref,omitempty"`
	ModeSets [][]int    `json:"modesets,omitempty"`
	ExtTest  bool       `json:"exttest,omitempty"`
	Sources  any        `json:"sources,omitempty"`
}

type c17Stats struct {
	pkgs, layouts, comparisons, monoRuns, monoSkipped, typeErr atomic.Int64
}

func c17GeneratorBug(res *vx.Result, st *c17Stats, what string, err error, files []c17File) {
	if st.typeErr.Add(1) <= 5 {
		var b strings.Builder
		for _, f := range files {
			b.WriteString("// " + filepath.Base(f.Name) + "\n" + f.Src)
		}
		res.Note("generator bug: %s does not type-check: %v\n%s", what, err, b.String())
	}
	res.NotExhaustive("a generated package did not type-check (generator bug)")
}

func c17Sources(files []c17File) map[string]string {
	m := map[string]string{}
	for _, f := range files {
		m[filepath.Base(f.Name)] = f.Src
	}
	return m
}

// (a) order independence
func c17Order(res *vx.Result, st *c17Stats, s *vgSpec, only *c17Layout) (base c17Verdict, ok bool) {
	return c17OrderDecls(res, st, s.Key(), s.Render(nil), c17Case{Part: "order", Spec: s}, only)
}

// c17OrderDecls: the declarations in every order and file split; tmpl identifies the package in a replay case.
func c17OrderDecls(res *vx.Result, st *c17Stats, key string, decls []vgDecl, tmpl c17Case, only *c17Layout) (base c17Verdict, ok bool) {
	mk := func(l *c17Layout, files []c17File) c17Case {
		cs := tmpl
		cs.Layout = l
		cs.Sources = c17Sources(files)
		return cs
	}
	n := len(decls)
	id := make([]int, n)
	for i := range id {
		id[i] = i
	}
	baseL := c17Layout{Perm: id, Files: 1}
	baseFiles := c17Files(decls, baseL, "/vg")
	vs, terr, pmsg := c17Analyze(baseFiles, 2)
	if terr != nil {
		c17GeneratorBug(res, st, key, terr, baseFiles)
		return base, false
	}
	if pmsg != "" {
		res.Violate("panic|"+key, "unused.Analyzer panicked/failed: "+pmsg, mk(&baseL, baseFiles))
		return base, false
	}
	st.pkgs.Add(1)
	base = vs[0]
	st.comparisons.Add(1)
	if !c17Eq(vs[0].Unused, vs[1].Unused) {
		res.Violate("repeat|"+key, fmt.Sprintf("running the analysis twice on the same package gives different reports: %v vs %v\n%s",
			vs[0].Unused, vs[1].Unused, baseFiles[0].Src), mk(&baseL, baseFiles))
	}
	if len(base.Unused) > 0 && len(base.Used) > 0 {
		res.NontrivialN(1)
	}
	check := func(l c17Layout) {
		files := c17Files(decls, l, "/vg")
		vs, terr, pmsg := c17Analyze(files, 1)
		st.layouts.Add(1)
		res.Eval(1)
		if terr != nil {
			c17GeneratorBug(res, st, key+" "+l.String(), terr, files)
			return
		}
		cs := mk(&l, files)
		if pmsg != "" {
			res.Violate("panic|"+key+"|"+l.String(), "unused.Analyzer panicked/failed: "+pmsg, cs)
			return
		}
		st.comparisons.Add(1)
		if !c17Eq(vs[0].Unused, base.Unused) {
			var b strings.Builder
			for _, f := range files {
				b.WriteString("// ---- " + filepath.Base(f.Name) + "\n" + f.Src)
			}
			res.Violate("order|"+key+"|"+l.String(), fmt.Sprintf("the reported objects depend on the order of declarations/files: in source order, one file: %v; with %s: %v (labels are declaration:kind name)\n--- source order ---\n%s--- permuted ---\n%s",
				base.Unused, l.String(), vs[0].Unused, baseFiles[0].Src, b.String()), cs)
		}
	}
	if only != nil {
		check(*only)
		return base, true
	}
	vgPermute(n, func(p []int) {
		perm := append([]int(nil), p...)
		ident := true
		for i, x := range perm {
			if x != i {
				ident = false
			}
		}
		if !ident {
			check(c17Layout{Perm: perm, Files: 1})
		} else {
			st.layouts.Add(1) // the base itself
		}
		if n >= 2 {
			check(c17Layout{Perm: perm, Files: 2})
			check(c17Layout{Perm: perm, Files: 2, Swap: true})
		}
	})
	// a freshly parsed and checked copy of the base
	vs2, _, _ := c17Analyze(baseFiles, 1)
	st.comparisons.Add(1)
	if len(vs2) == 1 && !c17Eq(vs2[0].Unused, base.Unused) {
		res.Violate("recheck|"+key, fmt.Sprintf("analysing a freshly checked copy of the same source gives a different report: %v vs %v\n%s",
			base.Unused, vs2[0].Unused, baseFiles[0].Src), mk(&baseL, baseFiles))
	}
	return base, true
}

// ---------------------------------------------------------------------------------------------
// (b) monotonicity

type c17Ref struct {
	Y    int    // object referred to
	Stmt string // the added statement
	Name string
}

// c17RefsTo lists well-typed references to every object of the package (and its members).
func c17RefsTo(s *vgSpec) []c17Ref {
	var out []c17Ref
	for j, o := range s.Objs {
		nm := s.name(j)
		switch o.K {
		case vkFunc:
			out = append(out, c17Ref{j, "_ = " + nm, nm})
		case vkGFunc:
			out = append(out, c17Ref{j, "_ = " + nm + "[int]", nm})
		case vkMethV:
			out = append(out, c17Ref{j, "_ = " + s.texpr(o.Recv) + "." + nm, nm})
		case vkMethP:
			out = append(out, c17Ref{j, "_ = (*" + s.texpr(o.Recv) + ")." + nm, nm})
		case vkStruct, vkGType:
			out = append(out, c17Ref{j, "var _ " + s.texpr(j), nm})
			out = append(out, c17Ref{j, "_ = (*new(" + s.texpr(j) + ")).f", nm + ".f"})
		case vkIface, vkAlias:
			out = append(out, c17Ref{j, "var _ " + s.texpr(j), nm})
		case vkVar, vkConst:
			out = append(out, c17Ref{j, "_ = " + nm, nm})
		case vkVarAnon:
			out = append(out, c17Ref{j, "_ = " + nm, nm})
			out = append(out, c17Ref{j, "_ = " + nm + ".x", nm + ".x"})
		case vkGroup:
			out = append(out, c17Ref{j, "_ = " + nm, nm})
			out = append(out, c17Ref{j, "_ = " + s.grpB(j), s.grpB(j)})
		}
	}
	return out
}

func c17Mono(res *vx.Result, st *c17Stats, s *vgSpec, base c17Verdict, onlyX int, onlyRef string) {
	key := s.Key()
	usedSet := map[string]bool{}
	for _, u := range base.Used {
		usedSet[u] = true
	}
	n := len(s.Objs)
	id := make([]int, n)
	for i := range id {
		id[i] = i
	}
	l := c17Layout{Perm: id, Files: 1}
	for x, o := range s.Objs {
		if o.K != vkFunc && o.K != vkMethV && o.K != vkMethP && o.K != vkGFunc {
			continue
		}
		if onlyX >= 0 && x != onlyX {
			continue
		}
		lbl := strconv.Itoa(x) + ":func " + s.name(x)
		if vgIsMethod(o.K) {
			r := s.name(o.Recv)
			if s.Objs[o.Recv].K == vkGType {
				r += "[T]"
			}
			if o.K == vkMethP {
				lbl = strconv.Itoa(x) + ":func (*" + r + ")." + s.name(x)
			} else {
				lbl = strconv.Itoa(x) + ":func " + r + "." + s.name(x)
			}
		}
		if !usedSet[lbl] {
			continue // only code that is itself used
		}
		for _, ref := range c17RefsTo(s) {
			if onlyRef != "" && ref.Stmt != onlyRef {
				continue
			}
			if s.initCycle(x, ref.Y) {
				st.monoSkipped.Add(1)
				continue
			}
			decls := s.Render(map[int][]string{x: {ref.Stmt}})
			files := c17Files(decls, l, "/vg")
			vs, terr, pmsg := c17Analyze(files, 1)
			st.monoRuns.Add(1)
			res.Eval(1)
			if terr != nil {
				c17GeneratorBug(res, st, key+" + "+s.name(x)+": "+ref.Stmt, terr, files)
				continue
			}
			cs := c17Case{Part: "mono", Spec: s, X: x, Ref: ref.Stmt, Sources: c17Sources(files)}
			rk := strings.ReplaceAll(ref.Stmt, " ", "_")
			if pmsg != "" {
				res.Violate("panic|"+key+"|x="+strconv.Itoa(x)+"|"+rk, "unused.Analyzer panicked/failed: "+pmsg, cs)
				continue
			}
			st.comparisons.Add(1)
			if miss, ok := c17SubMultiset(base.Used, vs[0].Used); !ok {
				res.Violate("mono|"+key+"|x="+strconv.Itoa(x)+"|"+rk, fmt.Sprintf("adding the reference `%s` to the used function %s turns the used object %q into an unused one\nreported before: %v\nreported after:  %v\n%s",
					ref.Stmt, s.name(x), miss, base.Unused, vs[0].Unused, files[0].Src), cs)
			}
		}
	}
}

// ---------------------------------------------------------------------------------------------
// (c) variants through the real binary

type c17VPkg struct {
	Dir     string
	Specs   []*vgSpec
	Modes   [][]int // every spec is present in one renamed copy per usage vector; per object: 0 referenced from the package, 1 only from the in-package test file, 2 from nowhere
	ExtTest bool
	files   []c17File // p.go, p_test.go
	must    []string  // "dir/file:line:col: kind name is unused": reported (not quiet) in every variant
	may     []string  // reported in some variant, used in none
	u1, u2  []string
	rescued int // objects reported in `p` but used in `p [p.test]`
}

const c17Module = "vm"

var c17NameRx = regexp.MustCompile(`\b([A-Za-z]+[0-9]+)\b`)

// c17Rename gives the package-level names of copy t of a spec their own suffix.
func c17Rename(src string, t int) string {
	return c17NameRx.ReplaceAllString(src, "${1}_"+strconv.Itoa(t))
}

// c17BuildVPkg renders the package and computes, in-process, what each variant reports.
func c17BuildVPkg(root string, p *c17VPkg) (typeErr error, panicMsg string) {
	dir := filepath.Join(root, p.Dir)
	var inPkg, inTest []string
	var pg strings.Builder
	for t := 0; t < len(p.Specs)*len(p.Modes); t++ {
		s := p.Specs[t/len(p.Modes)]
		modes := p.Modes[t%len(p.Modes)]
		refs := c17RefsTo(s)
		decls := s.Render(nil)
		first := map[int]bool{}
		for _, r := range refs {
			if first[r.Y] {
				continue // one reference per object: the object itself
			}
			first[r.Y] = true
			switch modes[r.Y] {
			case 0:
				inPkg = append(inPkg, c17Rename(r.Stmt, t))
			case 1:
				inTest = append(inTest, c17Rename(r.Stmt, t))
			}
		}
		for _, d := range decls {
			pg.WriteString("\n" + c17Rename(d.Src, t) + "\n")
		}
	}
	body := func(stmts []string) string {
		var b strings.Builder
		for _, x := range stmts {
			b.WriteString("\t" + x + "\n")
		}
		return b.String()
	}
	pgo := "package p\n\nfunc Use() {\n" + body(inPkg) + "}\n" + pg.String()
	tg := "package p\n\nfunc UseInTest() {\n" + body(inTest) + "}\n"
	p.files = []c17File{
		{vgSrcFile: vgSrcFile{Name: filepath.Join(dir, "p.go"), Src: pgo}},
		{vgSrcFile: vgSrcFile{Name: filepath.Join(dir, "p_test.go"), Src: tg}},
	}
	type ukey struct {
		base string
		line int
		name string
	}
	type verdict struct{ unused, used map[ukey]unused.Object }
	variant := func(files []c17File) (verdict, error, string) {
		c, errs := vgCheck(c17Module+"/"+p.Dir, c17SrcFiles(files), nil)
		if len(errs) > 0 {
			return verdict{}, errs[0], ""
		}
		var ur unused.Result
		if msg := vx.Catch(func() {
			var err error
			ur, err = vgRunUnused(c)
			if err != nil {
				panic(err)
			}
		}); msg != "" {
			return verdict{}, nil, msg
		}
		v := verdict{map[ukey]unused.Object{}, map[ukey]unused.Object{}}
		for _, o := range ur.Unused {
			v.unused[ukey{filepath.Base(o.Position.Filename), o.Position.Line, o.Name}] = o
		}
		for _, o := range ur.Used {
			v.used[ukey{filepath.Base(o.Position.Filename), o.Position.Line, o.Name}] = o
		}
		return v, nil, ""
	}
	v1, err, pm := variant(p.files[:1])
	if err != nil || pm != "" {
		return err, pm
	}
	v2, err, pm := variant(p.files)
	if err != nil || pm != "" {
		return err, pm
	}
	line := func(k ukey, o unused.Object) string {
		return fmt.Sprintf("%s/%s:%d:%d: %s %s is unused", p.Dir, k.base, o.Position.Line, o.Position.Column, o.Kind, o.Name)
	}
	seen := map[ukey]bool{}
	for _, v := range []verdict{v1, v2} {
		for k, o := range v.unused {
			if seen[k] {
				continue
			}
			seen[k] = true
			_, used1 := v1.used[k]
			_, used2 := v2.used[k]
			if used1 || used2 {
				continue
			}
			p.may = append(p.may, line(k, o))
			_, un1 := v1.unused[k]
			_, un2 := v2.unused[k]
			if (un1 || k.base == "p_test.go") && un2 {
				p.must = append(p.must, line(k, o))
			}
		}
	}
	for k, o := range v1.unused {
		p.u1 = append(p.u1, o.Kind+" "+o.Name)
		if _, ok := v2.used[k]; ok {
			p.rescued++
		}
	}
	for _, o := range v2.unused {
		p.u2 = append(p.u2, o.Kind+" "+o.Name)
	}
	sort.Strings(p.must)
	sort.Strings(p.may)
	sort.Strings(p.u1)
	sort.Strings(p.u2)
	return nil, ""
}

func c17WriteVPkg(root string, p *c17VPkg) error {
	dir := filepath.Join(root, p.Dir)
	if err := os.MkdirAll(dir, 0o755); err != nil {
		return err
	}
	for _, f := range p.files {
		if err := os.WriteFile(f.Name, []byte(f.Src), 0o644); err != nil {
			return err
		}
	}
	if p.ExtTest {
		src := "package p_test\n\nimport \"" + c17Module + "/" + p.Dir + "\"\n\nfunc UseFromOutside() { p.Use() }\n"
		if err := os.WriteFile(filepath.Join(dir, "x_test.go"), []byte(src), 0o644); err != nil {
			return err
		}
	}
	return nil
}

var c17LineRx = regexp.MustCompile(`^(.*\.go:\d+:\d+: .* is unused) \(U1000\)$`)

// c17RunBinary runs the real staticcheck on one module and returns the U1000 lines per package dir.
func c17RunBinary(bin, modDir, cacheDir string) (map[string][]string, string, error) {
	cmd := exec.Command(bin, "-checks", "U1000", "-tests", "./...")
	cmd.Dir = modDir
	cmd.Env = append(os.Environ(), "STATICCHECK_CACHE="+cacheDir, "GOWORK=off")
	var out, errb bytes.Buffer
	cmd.Stdout = &out
	cmd.Stderr = &errb
	err := cmd.Run()
	if err != nil {
		if ee, ok := err.(*exec.ExitError); !ok || ee.ExitCode() != 1 {
			return nil, errb.String() + out.String(), err
		}
	}
	got := map[string][]string{}
	var other []string
	sc := bufio.NewScanner(&out)
	sc.Buffer(make([]byte, 1<<20), 1<<26)
	for sc.Scan() {
		line := sc.Text()
		m := c17LineRx.FindStringSubmatch(line)
		if m == nil {
			other = append(other, line)
			continue
		}
		dir, _, _ := strings.Cut(m[1], "/")
		got[dir] = append(got[dir], m[1])
	}
	for d := range got {
		sort.Strings(got[d])
	}
	if len(other) > 0 || errb.Len() > 0 {
		if len(other) > 5 {
			other = other[:5]
		}
		return got, strings.Join(other, "\n") + "\n" + errb.String(), nil
	}
	return got, "", nil
}

func c17VariantSpecs() []*vgSpec {
	b := &vgBounds{MaxN: 3, MaxEdges: []int{0, 0, 0, 0}, MaxExp: []int{0, 0, 0, 0}, Forms: vgAllForms(), Kinds: vgAllKinds()}
	var out []*vgSpec
	for _, sk := range vgSkeletons(b, 3) {
		vgExpand(b, sk, 0, func(s *vgSpec) bool { out = append(out, s); return true })
	}
	return out
}

func c17AllModes() [][]int {
	var out [][]int
	for mv := 0; mv < 27; mv++ {
		out = append(out, []int{mv % 3, mv / 3 % 3, mv / 9 % 3})
	}
	return out
}

func c17Variants(res *vx.Result, st *c17Stats, only *c17Case) {
	bin := os.Getenv("VERIF_BIN_STATICCHECK")
	if bin == "" {
		res.NotExhaustive("variants: no staticcheck binary (VERIF_BIN_STATICCHECK unset)")
		return
	}
	root := filepath.Join(vx.ScratchDir(), "c17mods")
	var pkgs []*c17VPkg
	if only != nil {
		pkgs = append(pkgs, &c17VPkg{Dir: "q0", Specs: only.Specs, Modes: only.ModeSets, ExtTest: only.ExtTest})
	} else {
		// The binary compiles every Go package, its test variant and its test main (~1 CPU-s per
		// unit on the loaded sandbox), so a Go package holds `group` specs, each in 27 renamed
		// copies, one per usage vector. A few specs additionally get one Go package per vector.
		specs := c17VariantSpecs()
		group := vx.Pick(8, 2)
		k := 0
		for i := 0; i < len(specs); i += group {
			pkgs = append(pkgs, &c17VPkg{Dir: "q" + strconv.Itoa(k), Specs: specs[i:min(i+group, len(specs))], Modes: c17AllModes(), ExtTest: k%4 == 0})
			k++
		}
		single := vx.Pick(1, 4)
		for n := 0; n < single; n++ {
			si := (n*len(specs)/single + len(specs)/3) % len(specs)
			for _, mv := range c17AllModes() {
				pkgs = append(pkgs, &c17VPkg{Dir: "q" + strconv.Itoa(k), Specs: specs[si : si+1], Modes: [][]int{mv}, ExtTest: k%4 == 0})
				k++
			}
		}
		res.Count("variants_specs(3 objects, no optional edges, unexported)", int64(len(specs)))
	}
	perMod := 14
	type mod struct {
		dir  string
		pkgs []*c17VPkg
	}
	var mods []*mod
	for i := 0; i < len(pkgs); i += perMod {
		j := min(i+perMod, len(pkgs))
		mods = append(mods, &mod{dir: filepath.Join(root, "m"+strconv.Itoa(len(mods))), pkgs: pkgs[i:j]})
	}
	var wg sync.WaitGroup
	sem := make(chan struct{}, max(1, min(4, runtime.GOMAXPROCS(0)/4)))
	var done, triples, nontrivial, binRuns, quietOnly, reported, rescued atomic.Int64
	for _, m := range mods {
		wg.Add(1)
		go func(m *mod) {
			defer wg.Done()
			sem <- struct{}{}
			defer func() { <-sem }()
			if res.Expired() {
				res.NotExhaustive("variants: time budget reached before module " + filepath.Base(m.dir))
				return
			}
			if err := os.MkdirAll(m.dir, 0o755); err != nil {
				res.NotExhaustive("variants: " + err.Error())
				return
			}
			os.WriteFile(filepath.Join(m.dir, "go.mod"), []byte("module "+c17Module+"\n\ngo 1.26.0\n"), 0o644)
			var live []*c17VPkg
			for _, p := range m.pkgs {
				terr, pmsg := c17BuildVPkg(m.dir, p)
				if terr != nil {
					c17GeneratorBug(res, st, "variants "+c17SpecKeys(p.Specs), terr, p.files)
					continue
				}
				if pmsg != "" {
					res.Violate("panic|variants|"+c17SpecKeys(p.Specs), "unused.Analyzer panicked/failed: "+pmsg, nil)
					continue
				}
				if err := c17WriteVPkg(m.dir, p); err != nil {
					res.NotExhaustive("variants: " + err.Error())
					return
				}
				live = append(live, p)
			}
			got, diag, err := c17RunBinary(bin, m.dir, filepath.Join(root, "cache-"+filepath.Base(m.dir)))
			binRuns.Add(1)
			if err != nil {
				res.Note("variants: staticcheck failed on %s: %v\n%s", m.dir, err, diag)
				res.NotExhaustive("variants: the binary failed on a generated module (harness or environment)")
				return
			}
			if diag != "" {
				res.Note("variants: unexpected output on %s: %s", m.dir, diag)
				res.NotExhaustive("variants: the binary printed something other than U1000 lines (harness or environment)")
				return
			}
			for _, p := range live {
				done.Add(1)
				triples.Add(int64(len(p.Modes) * len(p.Specs)))
				res.Eval(int64(len(p.Modes) * len(p.Specs)))
				g := got[p.Dir]
				reported.Add(int64(len(g)))
				st.comparisons.Add(int64(len(p.may)) + 1)
				quietOnly.Add(int64(len(p.may) - len(p.must)))
				_, ok1 := c17SubMultiset(p.must, g)
				_, ok2 := c17SubMultiset(g, p.may)
				if !ok1 || !ok2 {
					var wrong []string
					for _, x := range g {
						if _, ok := c17SubMultiset([]string{x}, p.may); !ok {
							wrong = append(wrong, "reported although used in a variant (or unknown): "+x)
						}
					}
					for _, x := range p.must {
						if _, ok := c17SubMultiset([]string{x}, g); !ok {
							wrong = append(wrong, "unused in every variant but not reported: "+x)
						}
					}
					mk := "all27"
					if len(p.Modes) == 1 {
						mk = strings.ReplaceAll(strings.Trim(fmt.Sprint(p.Modes[0]), "[]"), " ", ".")
					}
					key := "variants|" + c17SpecKeys(p.Specs) + "|modes=" + mk
					if p.ExtTest {
						key += "|ext"
					}
					msg := fmt.Sprintf("staticcheck -tests disagrees with the per-variant results of the analyzer:\n  %s\nbinary: %v\nanalyzer on `p`: %v\nanalyzer on `p [p.test]`: %v\n(copy t carries the suffix _t: spec t/%d of the package, usage vector t%%%d of {package, test only, nowhere}^3 with the first object varying fastest)\n// p.go\n%s// p_test.go\n%s",
						strings.Join(wrong, "\n  "), g, p.u1, p.u2, len(p.Modes), len(p.Modes), p.files[0].Src, p.files[1].Src)
					res.Violate(key, msg, c17Case{Part: "variants", Specs: p.Specs, ModeSets: p.Modes, ExtTest: p.ExtTest})
				}
				if p.rescued > 0 {
					nontrivial.Add(1) // the variants disagree: the merge decides
					rescued.Add(int64(p.rescued))
				}
			}
		}(m)
	}
	wg.Wait()
	res.Count("variants_go_packages_through_binary", done.Load())
	res.Count("variants_spec_x_usage_vector", triples.Load())
	res.Count("variants_packages_where_variants_disagree", nontrivial.Load())
	res.Count("variants_objects_unused_in_p_but_used_in_test_variant", rescued.Load())
	res.Count("variants_binary_runs", binRuns.Load())
	res.Count("variants_U1000_lines", reported.Load())
	res.Count("variants_objects_quiet_in_p_reported_in_test_variant(not_asserted_either_way)", quietOnly.Load())
	res.NontrivialN(nontrivial.Load())
	if q := quietOnly.Load(); q > 0 {
		res.Unassert(fmt.Sprintf("(c) %d objects are quiet in `p` (their owner is reported there) and reported in `p [p.test]`: the binary prints them; whether 'unused in every variant' covers a quiet object is not asserted either way", q))
	}
	if only == nil && len(pkgs) > 0 {
		p := pkgs[len(pkgs)-1]
		if len(p.files) == 2 {
			res.Sample(map[string]any{"part": "variants", "key": c17SpecKeys(p.Specs), "modes": p.Modes, "p.go": p.files[0].Src, "p_test.go": p.files[1].Src, "must_be_reported": p.must})
		}
	}
}

// ---------------------------------------------------------------------------------------------

// (d) repetition on the generic-type/interface family (gen_test.go): the analyzer walks the known
// interfaces in map order, so the same package is analysed several times, on one checked package
// and on freshly checked copies; the report must be one value.
func c17RepeatGI(res *vx.Result, st *c17Stats, g *vgGISpec, rounds int) {
	files := []c17File{{vgSrcFile: vgSrcFile{Name: "/vg/p.go", Src: g.Source()}}}
	key := g.Key()
	var first []string
	for copyN := 0; copyN < 2; copyN++ {
		vs, terr, pmsg := c17Analyze(files, rounds)
		if terr != nil {
			c17GeneratorBug(res, st, key, terr, files)
			return
		}
		cs := c17Case{Part: "repeatgi", GI: g, Sources: c17Sources(files)}
		if pmsg != "" {
			res.Violate("panic|"+key, "unused.Analyzer panicked/failed: "+pmsg, cs)
			return
		}
		for _, v := range vs {
			st.layouts.Add(1)
			res.Eval(1)
			if first == nil {
				first = v.Unused
				if first == nil {
					first = []string{}
				}
				continue
			}
			st.comparisons.Add(1)
			if !c17Eq(first, v.Unused) {
				res.Violate("repeat|"+key, fmt.Sprintf("repeating the analysis of the same package gives different reports: %v vs %v\n%s", first, v.Unused, files[0].Src), cs)
				return
			}
		}
	}
}

func c17Bounds() *vgBounds {
	b := &vgBounds{Forms: vgAllForms(), Kinds: append(vgAllKinds(), vkVarAnon)}
	if vx.Thorough() {
		b.MaxN = 4
		b.MaxEdges = []int{0, -1, -1, -1, 1}
		b.MaxExp = []int{0, 1, 2, 1, 1}
		b.CoreFrom = 4
	} else {
		b.MaxN = 3
		b.MaxEdges = []int{0, -1, -1, 2}
		b.MaxExp = []int{0, 1, 2, 1}
		b.CoreFrom = 3
	}
	return b
}

func TestVerifC17(t *testing.T) {
	res := vx.New("(a) every package of the bounded family x every permutation of its declarations x {one file, two files in both orders}, plus repeated analysis; (b) x every used function X x every object Y with the reference X->Y added; (c) every 3-object package x usage vector {package, test only, nowhere}^3 through the real binary with -tests; non-trivial = the package has both reported and used objects (a, b) / the two variants disagree (c)")
	defer res.Write()
	st := &c17Stats{}
	debug.SetGCPercent(800)

	if key, raw, ok := vx.Replay(); ok {
		var cs c17Case
		if err := json.Unmarshal(raw, &cs); err != nil {
			t.Fatalf("replay %s: %v", key, err)
		}
		switch cs.Part {
		case "order":
			c17Order(res, st, cs.Spec, cs.Layout)
		case "mono":
			if base, ok := c17Order(res, st, cs.Spec, &c17Layout{Perm: c17Identity(len(cs.Spec.Objs)), Files: 1}); ok {
				c17Mono(res, st, cs.Spec, base, cs.X, cs.Ref)
			}
		case "variants":
			c17Variants(res, st, &cs)
		case "ordersp":
			c17OrderDecls(res, st, cs.SP.Key(), cs.SP.Decls(), c17Case{Part: "ordersp", SP: cs.SP}, cs.Layout)
		case "orderec":
			c17OrderDecls(res, st, cs.EC.Key(), cs.EC.Decls(), c17Case{Part: "orderec", EC: cs.EC}, cs.Layout)
		case "repeatgi":
			c17RepeatGI(res, st, cs.GI, 16)
		}
		res.States, res.Transitions = st.layouts.Load()+1, st.comparisons.Load()
		return
	}

	res.SetBudget(vx.Budget(100*time.Second, 17*time.Minute))
	cpu0 := vgCPU()
	part := os.Getenv("VERIF_C17_PART") // development aid: "ab" or "c"

	var giDone atomic.Int64
	var vwg sync.WaitGroup
	if part != "ab" {
		vwg.Add(1)
		go func() { // the binary runs beside the in-process parts
			defer vwg.Done()
			c17Variants(res, st, nil)
		}()
	}
	if part != "c" {
		gis := vgGIEnumerate(3)
		var next atomic.Int64
		var wg sync.WaitGroup
		for w := 0; w < runtime.GOMAXPROCS(0); w++ {
			wg.Add(1)
			go func() {
				defer wg.Done()
				for {
					i := int(next.Add(1)) - 1
					if i >= len(gis) {
						return
					}
					if res.Expired() {
						res.NotExhaustive("time budget reached in part (d)")
						return
					}
					c17RepeatGI(res, st, gis[i], vx.Pick(3, 6))
					giDone.Add(1)
				}
			}()
		}
		wg.Wait()
		res.Count("repetition_generic_interface_family_packages", giDone.Load())
		// (e) interfaces with identical printed form, in every order of declarations and files
		sps := vgSPEnumerate()
		next.Store(0)
		var spDone atomic.Int64
		for w := 0; w < runtime.GOMAXPROCS(0); w++ {
			wg.Add(1)
			go func() {
				defer wg.Done()
				for {
					i := int(next.Add(1)) - 1
					if i >= len(sps) {
						return
					}
					if res.Expired() {
						res.NotExhaustive("time budget reached in part (e)")
						return
					}
					c17OrderDecls(res, st, sps[i].Key(), sps[i].Decls(), c17Case{Part: "ordersp", SP: sps[i]}, nil)
					spDone.Add(1)
				}
			}()
		}
		wg.Wait()
		res.Count("same_print_interface_family_packages", spDone.Load())
		// (f) struct-embedding cycles, in every order of declarations and files
		ecs := vgECEnumerate()
		next.Store(0)
		var ecDone atomic.Int64
		for w := 0; w < runtime.GOMAXPROCS(0); w++ {
			wg.Add(1)
			go func() {
				defer wg.Done()
				for {
					i := int(next.Add(1)) - 1
					if i >= len(ecs) {
						return
					}
					if res.Expired() {
						res.NotExhaustive("time budget reached in part (f)")
						return
					}
					c17OrderDecls(res, st, ecs[i].Key(), ecs[i].Decls(), c17Case{Part: "orderec", EC: ecs[i]}, nil)
					ecDone.Add(1)
				}
			}()
		}
		wg.Wait()
		res.Count("embedding_cycle_family_packages", ecDone.Load())
		res.Sample(map[string]any{"part": "order, interfaces with identical printed form", "key": sps[len(sps)/3].Key(), "source": vgFileText("p", sps[len(sps)/3].Decls())})
	}
	b := c17Bounds()
	completed := "skipped"
	var specs, inadm, noncanon int64
	if part != "c" {
		var sampleN atomic.Int64
		specs, inadm, noncanon, completed = vgRunTasks(res, b, func(s *vgSpec) {
			base, ok := c17Order(res, st, s, nil)
			if ok {
				c17Mono(res, st, s, base, -1, "")
			}
			if n := sampleN.Add(1); n == 2000 || n == 30000 {
				res.Sample(map[string]any{"part": "order+mono", "key": s.Key(), "source": vgFileText("p", s.Render(nil)), "reported": base.Unused})
			}
		})
		if res.Expired() {
			res.NotExhaustive("time budget reached in parts (a)/(b): " + completed)
		}
	}
	vwg.Wait()
	res.Count("generated_packages", specs)
	res.Count("generated_edge_sets_inadmissible", inadm)
	res.Count("generated_edge_sets_noncanonical(renaming)", noncanon)
	res.Count("layouts(package x permutation x file split)", st.layouts.Load())
	res.Count("monotonicity_runs(package x used function x object)", st.monoRuns.Load())
	res.Count("monotonicity_references_skipped(initialization cycle)", st.monoSkipped.Load())
	res.Count("comparisons", st.comparisons.Load())
	res.Count("type_check_failures(generator bugs)", st.typeErr.Load())
	res.Count("cpu_seconds_in_process", int64((vgCPU() - cpu0).Seconds()))
	res.Bound = fmt.Sprintf("(a)(b): objects<=%d, edges per size %v (-1 = every subset), exported per size <=%v, core forms from %d objects on; %s; (c): every 3-object skeleton without optional edges x 27 usage vectors, %d skeletons per Go package",
		b.MaxN, b.MaxEdges[1:], b.MaxExp[1:], b.CoreFrom, completed, vx.Pick(8, 2))
	res.States = st.layouts.Load()
	res.Transitions = st.comparisons.Load()
	res.Validated = st.layouts.Load() + st.monoRuns.Load()
	t.Logf("C17: %d packages, %d layouts, %d monotonicity runs, %d comparisons; %s", specs, st.layouts.Load(), st.monoRuns.Load(), st.comparisons.Load(), completed)
}

func c17Identity(n int) []int {
	id := make([]int, n)
	for i := range id {
		id[i] = i
	}
	return id
}

func c17SpecKeys(specs []*vgSpec) string {
	ks := make([]string, len(specs))
	for i, s := range specs {
		ks[i] = strings.TrimSuffix(s.Key(), "|")
	}
	return strings.Join(ks, "+")
}
