//go:build verif

package ir_test

// C02 generators, part 2: three small families, each exhaustive over its stated dimensions, aimed
// at the lifting pass's bookkeeping rather than at CFG shape.
//
//	dead     dead and overwritten stores: an initialisation (plain | immediately overwritten), a
//	         chain of 1..3 ifs each of which conditionally stores to x (a constant | x itself |
//	         another variable | constant/else x | constant/else variable), and an ending (read x |
//	         overwrite then read | never read | self-assign then read). These are the programs in
//	         which lifting places φ-nodes that turn out trivial or dead.
//	round2   a local x that becomes splittable only in lift round >= 2 (it is reached through a
//	         pointer variable, or a pointer to a pointer variable, that has to be lifted first),
//	         whose first unliftable use sits in (or behind) a join block that by then starts with
//	         k = 0..3 φ-nodes of other variables; plus the round-1 variants (direct &x, and a join
//	         block headed by the φ-node of an && expression).
//	loopvars go1.22 three-clause for loops with 1..3 loop variables of which the first m are
//	         captured by a closure (the builder emits one φ-node per captured variable at the head
//	         of the loop block before lifting), an escaping local whose address is taken in the
//	         condition, the body or the post statement, and a body that returns, breaks or continues.

import (
	"fmt"
	"strings"
)

type wfMiniSpec struct {
	Fam string `json:"fam"`
	P   []int  `json:"p"`
}

const wfMiniPrelude = `
var sink func(*int)
var sinkpp func(**int)
var check func(*int, ...int) bool
var step func(*int, int) int
var fns []func() int
`

func wfMiniSpecs() []wfMiniSpec {
	var out []wfMiniSpec
	// dead: P = [init, final, act1..actk]
	for init := 0; init < 2; init++ {
		for final := 0; final < 4; final++ {
			for k := 1; k <= 3; k++ {
				total := 1
				for i := 0; i < k; i++ {
					total *= 5
				}
				for code := 0; code < total; code++ {
					p := []int{init, final}
					c := code
					for i := 0; i < k; i++ {
						p = append(p, c%5)
						c /= 5
					}
					out = append(out, wfMiniSpec{"dead", p})
				}
			}
		}
	}
	// round2: P = [via, k, pos]; via 0 direct, 1 through p, 2 through q -> p, 3 direct behind an && join
	for via := 0; via < 4; via++ {
		for k := 0; k <= 3; k++ {
			for pos := 0; pos < 2; pos++ {
				out = append(out, wfMiniSpec{"round2", []int{via, k, pos}})
			}
		}
	}
	// loopvars: P = [nvars, captured, exit, escpos]
	for nv := 1; nv <= 3; nv++ {
		for m := 0; m <= nv; m++ {
			for exit := 0; exit < 3; exit++ {
				for esc := 0; esc < 3; esc++ {
					out = append(out, wfMiniSpec{"loopvars", []int{nv, m, exit, esc}})
				}
			}
		}
	}
	return out
}

func (s wfMiniSpec) ok() bool {
	switch s.Fam {
	case "dead":
		if len(s.P) < 3 || len(s.P) > 5 || s.P[0] < 0 || s.P[0] > 1 || s.P[1] < 0 || s.P[1] > 3 {
			return false
		}
		for _, a := range s.P[2:] {
			if a < 0 || a > 4 {
				return false
			}
		}
		return true
	case "round2":
		return len(s.P) == 3 && s.P[0] >= 0 && s.P[0] <= 3 && s.P[1] >= 0 && s.P[1] <= 3 && s.P[2] >= 0 && s.P[2] <= 1
	case "loopvars":
		return len(s.P) == 4 && s.P[0] >= 1 && s.P[0] <= 3 && s.P[1] >= 0 && s.P[1] <= s.P[0] && s.P[2] >= 0 && s.P[2] <= 2 && s.P[3] >= 0 && s.P[3] <= 2
	}
	return false
}

func (s wfMiniSpec) source(name string) string {
	var b strings.Builder
	switch s.Fam {
	case "dead":
		fmt.Fprintf(&b, "func %s(c0, c1, c2 bool, a int) int {\n\tx := 0\n", name)
		if s.P[1] == 2 {
			b.WriteString("\ta += x\n") // the only read of x precedes every conditional store
		}
		if s.P[0] == 1 {
			b.WriteString("\tx = a\n\tx = 7\n") // two stores overwritten before any read
		}
		for i, act := range s.P[2:] {
			switch act {
			case 0:
				fmt.Fprintf(&b, "\tif c%d {\n\t\tx = %d\n\t}\n", i, i+1)
			case 1:
				fmt.Fprintf(&b, "\tif c%d {\n\t\tx = x\n\t}\n", i)
			case 2:
				fmt.Fprintf(&b, "\tif c%d {\n\t\tx = a\n\t}\n", i)
			case 3:
				fmt.Fprintf(&b, "\tif c%d {\n\t\tx = %d\n\t} else {\n\t\tx = x\n\t}\n", i, i+1)
			case 4:
				fmt.Fprintf(&b, "\tif c%d {\n\t\tx = %d\n\t} else {\n\t\tx = a\n\t}\n", i, i+1)
			}
		}
		switch s.P[1] {
		case 0:
			b.WriteString("\treturn x\n")
		case 1:
			b.WriteString("\tx = 5\n\treturn x\n")
		case 2:
			b.WriteString("\treturn a\n")
		case 3:
			b.WriteString("\tx = x\n\treturn x\n")
		}
		b.WriteString("}\n")

	case "round2":
		via, k, pos := s.P[0], s.P[1], s.P[2]
		fmt.Fprintf(&b, "func %s(c0, c1 bool, n int) int {\n\tx := n\n", name)
		esc := "sink(&x)"
		switch via {
		case 0, 3:
			b.WriteString("\ty := x\n")
		case 1:
			b.WriteString("\tp := &x\n\t*p = 5\n\ty := *p\n")
			esc = "sink(p)"
		case 2:
			b.WriteString("\tp := &x\n\tq := &p\n\t**q = 5\n\ty := **q\n")
			esc = "sink(*q)"
		}
		var us []string
		for i := 0; i < k; i++ {
			us = append(us, fmt.Sprintf("u%d", i))
		}
		if k > 0 {
			fmt.Fprintf(&b, "\t%s := %s\n", strings.Join(us, ", "), strings.TrimSuffix(strings.Repeat("0, ", k), ", "))
		}
		if via == 3 {
			// the join block is the done block of an && expression: one φ-node before lifting
			b.WriteString("\tb := c0 && c1\n")
		} else if k > 0 {
			var vals []string
			for i := 0; i < k; i++ {
				vals = append(vals, fmt.Sprint(i+1))
			}
			fmt.Fprintf(&b, "\tif c0 {\n\t\t%s = %s\n\t}\n", strings.Join(us, ", "), strings.Join(vals, ", "))
		} else {
			b.WriteString("\tif c0 {\n\t\ty++\n\t}\n")
		}
		if pos == 0 {
			fmt.Fprintf(&b, "\t%s\n", esc)
		} else {
			fmt.Fprintf(&b, "\tif c1 {\n\t\t%s\n\t}\n", esc)
		}
		b.WriteString("\tr := y + x")
		for _, u := range us {
			b.WriteString(" + " + u)
		}
		b.WriteString("\n")
		if via == 3 {
			b.WriteString("\tif b {\n\t\tr++\n\t}\n")
		}
		b.WriteString("\treturn r\n}\n")

	case "loopvars":
		nv, m, exit, escpos := s.P[0], s.P[1], s.P[2], s.P[3]
		names := []string{"i", "j", "k"}[:nv]
		var inits []string
		for i := range names {
			inits = append(inits, fmt.Sprint(i))
		}
		fmt.Fprintf(&b, "func %s(n int) func() int {\n\tx := n\n\ty := x\n", name)
		args := strings.Join(names, ", ")
		cond := "i < n"
		if escpos == 0 {
			cond = "check(&x, " + args + ")"
		}
		post := "i++"
		if escpos == 2 {
			post = "i = step(&x, i)"
		}
		fmt.Fprintf(&b, "\tfor %s := %s; %s; %s {\n", args, strings.Join(inits, ", "), cond, post)
		if escpos == 1 {
			fmt.Fprintf(&b, "\t\tif check(&x, %s) {\n\t\t\ty++\n\t\t}\n", args)
		}
		sum := "y"
		for _, v := range names[:m] {
			sum += " + " + v
		}
		for _, v := range names[m:] {
			fmt.Fprintf(&b, "\t\ty += %s\n", v)
		}
		closure := "func() int { return " + sum + " }"
		switch exit {
		case 0:
			fmt.Fprintf(&b, "\t\treturn %s\n", closure)
		case 1:
			fmt.Fprintf(&b, "\t\tfns = append(fns, %s)\n\t\tif y > 3 {\n\t\t\tbreak\n\t\t}\n", closure)
		case 2:
			fmt.Fprintf(&b, "\t\tfns = append(fns, %s)\n\t\tif y > 3 {\n\t\t\tcontinue\n\t\t}\n\t\ty++\n", closure)
		}
		b.WriteString("\t}\n\treturn func() int { return y }\n}\n")
	}
	return b.String()
}
