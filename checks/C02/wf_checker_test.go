//go:build verif

package ir_test

// C02: an independent well-formedness checker for functions of honnef.co/go/tools/go/ir.
//
// It reads functions only through the exported API (Function.Blocks, BasicBlock.Instrs/Preds/
// Succs/Index, Instruction.Operands, Value.Referrers, Value.Type, the exported fields of the
// instruction structs) and shares no code with go/ir/sanity.go. Dominance is computed here, by
// reachability after node removal (small CFGs) or by iterating Dom(b) = {b} ∪ ⋂ Dom(preds)
// (large CFGs); BasicBlock.Dominates/Idom are never consulted.
//
// Every rule carries a stable identifier. Structural rules come from the documentation of
// Function, BasicBlock, Value.Referrers, Instruction.Operands/ID and of the individual
// instructions in go/ir/ssa.go. A typing rule is present only if the instruction's doc comment
// states it (or, for Phi/Store/BinOp/UnOp, if it is what "X op Y", "stores Val at address Addr"
// and "combines values" mean in a typed SSA: identical types). Whenever a type parameter takes
// part in a rule the rule is evaluated on the type set if that is known and skipped otherwise
// ("permissive direction"): a skipped rule is counted, never reported.

import (
	"bytes"
	"fmt"
	"go/ast"
	"go/token"
	"go/types"
	"sort"
	"strings"

	"golang.org/x/exp/typeparams"

	"honnef.co/go/tools/go/ir"
)

type wfViolation struct {
	Rule string
	Msg  string
}

type wfStats struct {
	Blocks, Instrs, Phis, SplitAllocs int
	Skipped                           int // typing rules not evaluated because a type parameter's type set is unknown
	Unreachable                       int // blocks reachable neither from the entry nor from Recover
	DomSelfChecked                    bool
	DomMismatch                       string // the two dominance algorithms of this file disagree: harness defect
	Unasserted                        map[string]int
}

type wfPos struct{ b, i int }

type wfChecker struct {
	fn    *ir.Function
	vs    []wfViolation
	seen  map[string]bool
	st    wfStats
	pos   map[ir.Instruction]wfPos
	owned map[ir.Value]bool // values of fn that track referrers
}

func (c *wfChecker) fail(rule, format string, a ...any) {
	if c.seen[rule] {
		return // first witness per rule and function
	}
	c.seen[rule] = true
	c.vs = append(c.vs, wfViolation{rule, fmt.Sprintf(format, a...)})
}

func (c *wfChecker) unassert(name string) {
	if c.st.Unasserted == nil {
		c.st.Unasserted = map[string]int{}
	}
	c.st.Unasserted[name]++
}

func wfIsTerminator(i ir.Instruction) bool {
	switch i.(type) {
	case *ir.If, *ir.Jump, *ir.Return, *ir.Panic, *ir.Unreachable, *ir.ConstantSwitch:
		return true
	}
	return false
}

func wfInstrString(i ir.Instruction) (s string) {
	defer func() {
		if e := recover(); e != nil {
			s = fmt.Sprintf("<%T: String panicked>", i)
		}
	}()
	if i == nil {
		return "<nil>"
	}
	if v, ok := i.(ir.Value); ok {
		return fmt.Sprintf("%s = %s [%T]", v.Name(), i.String(), i)
	}
	return fmt.Sprintf("%s [%T]", i.String(), i)
}

func wfValueString(v ir.Value) (s string) {
	defer func() {
		if e := recover(); e != nil {
			s = fmt.Sprintf("<%T>", v)
		}
	}()
	if v == nil {
		return "<nil>"
	}
	return fmt.Sprintf("%s (%T)", v.Name(), v)
}

// wfCheckFunction checks one function body. A function without blocks (external) yields nothing.
func wfCheckFunction(fn *ir.Function) ([]wfViolation, wfStats) {
	c := &wfChecker{fn: fn, seen: map[string]bool{}}
	if len(fn.Blocks) == 0 {
		return nil, c.st
	}
	if !c.structure() {
		return c.vs, c.st
	}
	cfgOK := c.cfg()
	c.terminatorsAndPhis()
	c.ids()
	c.operands()
	c.referrers()
	if cfgOK {
		c.dominance()
	}
	c.locals()
	c.typing()
	return c.vs, c.st
}

// ---------------------------------------------------------------------------------------------
// structure: blocks and instructions are where they say they are

func (c *wfChecker) structure() bool {
	fn := c.fn
	ok := true
	c.pos = map[ir.Instruction]wfPos{}
	for bi, b := range fn.Blocks {
		if b == nil {
			c.fail("cfg.nilblock", "Blocks[%d] is nil", bi)
			return false
		}
		if b.Index != bi {
			c.fail("cfg.index", "Blocks[%d].Index = %d", bi, b.Index)
			ok = false
		}
		if b.Parent() != fn {
			c.fail("cfg.parent", "Blocks[%d].Parent() is not the function", bi)
			ok = false
		}
		c.st.Blocks++
		for ii, instr := range b.Instrs {
			if instr == nil {
				c.fail("instr.nil", "block %d: Instrs[%d] is nil", bi, ii)
				return false
			}
			c.st.Instrs++
			if _, dup := c.pos[instr]; dup {
				c.fail("instr.twice", "block %d: instruction %s occurs twice in the function", bi, wfInstrString(instr))
				ok = false
			}
			c.pos[instr] = wfPos{bi, ii}
			if instr.Block() != b {
				c.fail("instr.block", "block %d: %s has Block() = %v", bi, wfInstrString(instr), wfBlockName(instr.Block()))
				ok = false
			} else if instr.Parent() != fn {
				c.fail("instr.parent", "block %d: %s has a different Parent()", bi, wfInstrString(instr))
				ok = false
			}
			switch x := instr.(type) {
			case *ir.Phi:
				c.st.Phis++
			case *ir.Alloc:
				if x.Comment() == "split alloc" {
					c.st.SplitAllocs++
				}
			}
		}
	}
	if fn.Recover != nil {
		r := fn.Recover
		if r.Index < 0 || r.Index >= len(fn.Blocks) || fn.Blocks[r.Index] != r {
			c.fail("cfg.recover", "Recover is not one of the function's blocks")
			ok = false
		}
	}
	return ok
}

func wfBlockName(b *ir.BasicBlock) string {
	if b == nil {
		return "<nil>"
	}
	return fmt.Sprintf("block %d", b.Index)
}

// cfg: Preds and Succs are inverse relations with multiplicity; no duplicate edges ("It is illegal
// for multiple edges to exist between the same pair of blocks").
func (c *wfChecker) cfg() bool {
	fn := c.fn
	ok := true
	in := func(b *ir.BasicBlock) bool {
		return b != nil && b.Index >= 0 && b.Index < len(fn.Blocks) && fn.Blocks[b.Index] == b
	}
	count := func(l []*ir.BasicBlock, x *ir.BasicBlock) int {
		n := 0
		for _, y := range l {
			if y == x {
				n++
			}
		}
		return n
	}
	for _, b := range fn.Blocks {
		for _, s := range b.Succs {
			if !in(s) {
				c.fail("cfg.foreign", "block %d has a successor that is not a block of the function", b.Index)
				return false
			}
		}
		for _, p := range b.Preds {
			if !in(p) {
				c.fail("cfg.foreign", "block %d has a predecessor that is not a block of the function", b.Index)
				return false
			}
		}
	}
	for _, b := range fn.Blocks {
		for _, s := range b.Succs {
			ns, np := count(b.Succs, s), count(s.Preds, b)
			if ns != np {
				c.fail("cfg.inverse", "edge %d->%d occurs %d times in Succs but %d times in Preds", b.Index, s.Index, ns, np)
				ok = false
			}
			if ns > 1 {
				c.fail("cfg.dupedge", "edge %d->%d occurs %d times", b.Index, s.Index, ns)
			}
		}
		for _, p := range b.Preds {
			ns, np := count(p.Succs, b), count(b.Preds, p)
			if ns != np {
				c.fail("cfg.inverse", "edge %d->%d occurs %d times in Succs but %d times in Preds", p.Index, b.Index, ns, np)
				ok = false
			}
		}
	}
	return ok
}

// terminatorsAndPhis: exactly one control instruction per block, last, arity = len(Succs); φ-nodes
// lead the block and have one edge per predecessor.
func (c *wfChecker) terminatorsAndPhis() {
	for _, b := range c.fn.Blocks {
		if len(b.Instrs) == 0 {
			// "A block may contain no Instructions only if it is unreachable, i.e., Preds is nil."
			if len(b.Preds) != 0 || b.Index == 0 {
				c.fail("term.missing", "block %d is empty", b.Index)
			}
			continue
		}
		for i, instr := range b.Instrs[:len(b.Instrs)-1] {
			if wfIsTerminator(instr) {
				c.fail("term.notlast", "block %d: control instruction %s at position %d of %d", b.Index, wfInstrString(instr), i, len(b.Instrs))
			}
		}
		last := b.Instrs[len(b.Instrs)-1]
		want := -1
		switch t := last.(type) {
		case *ir.If:
			want = 2
		case *ir.Jump:
			want = 1
		case *ir.Return, *ir.Panic, *ir.Unreachable:
			want = 0
		case *ir.ConstantSwitch:
			want = len(t.Conds)
		default:
			c.fail("term.missing", "block %d ends in %s, not a control instruction", b.Index, wfInstrString(last))
		}
		if want >= 0 && len(b.Succs) != want {
			c.fail("term.arity", "block %d ends in %s but has %d successors", b.Index, wfInstrString(last), len(b.Succs))
		}
		inHead := true
		for i, instr := range b.Instrs {
			phi, isPhi := instr.(*ir.Phi)
			if !isPhi {
				inHead = false
				continue
			}
			if !inHead {
				c.fail("phi.lead", "block %d: φ-node %s at position %d follows a non-φ instruction", b.Index, wfInstrString(instr), i)
			}
			if len(phi.Edges) != len(b.Preds) {
				c.fail("phi.edges", "block %d: φ-node %s has %d edges, block has %d predecessors", b.Index, wfInstrString(instr), len(phi.Edges), len(b.Preds))
			}
		}
	}
}

// ids: "IDs are unique within a single function".
func (c *wfChecker) ids() {
	seen := make(map[ir.ID]ir.Instruction, c.st.Instrs)
	for _, b := range c.fn.Blocks {
		for _, instr := range b.Instrs {
			if prev, dup := seen[instr.ID()]; dup {
				c.fail("id.dup", "ID %d is shared by %s and %s", instr.ID(), wfInstrString(prev), wfInstrString(instr))
			}
			seen[instr.ID()] = instr
		}
	}
}

// mayBeNil reports whether operand slot k of instr is documented as optional.
func wfMayBeNil(instr ir.Instruction, k int, nops int) bool {
	switch x := instr.(type) {
	case *ir.Slice:
		return k >= 1 // Low, High, Max: "each may be nil"
	case *ir.MakeMap:
		return true // Reserve: "nil => default"
	case *ir.ConstantSwitch:
		return k >= 1 // "A nil Value denotes the (implicit or explicit) default branch."
	case *ir.Select:
		// operands are (Chan, Send) pairs; Send is absent for receive states
		if k%2 == 1 && k/2 < len(x.States) && x.States[k/2].Dir == types.RecvOnly {
			return true
		}
	case *ir.Defer:
		return k == nops-1 // DeferStack: "If DeferStack != nil, ..."
	}
	return false
}

// operands: every operand is a value the function may legally use.
func (c *wfChecker) operands() {
	fn := c.fn
	params := map[*ir.Parameter]bool{}
	for _, p := range fn.Params {
		params[p] = true
	}
	frees := map[*ir.FreeVar]bool{}
	for _, f := range fn.FreeVars {
		frees[f] = true
	}
	anons := map[*ir.Function]bool{}
	for _, a := range fn.AnonFuncs {
		anons[a] = true
	}
	c.owned = map[ir.Value]bool{}
	for _, p := range fn.Params {
		c.owned[p] = true
	}
	for _, f := range fn.FreeVars {
		c.owned[f] = true
	}
	for _, a := range fn.AnonFuncs {
		c.owned[a] = true
	}
	var rands []*ir.Value
	var checkVal func(user ir.Instruction, b *ir.BasicBlock, v ir.Value, callee bool)
	checkVal = func(user ir.Instruction, b *ir.BasicBlock, v ir.Value, callee bool) {
		switch x := v.(type) {
		case *ir.Parameter:
			if !params[x] {
				c.fail("op.foreign", "block %d: %s uses parameter %s of another function", b.Index, wfInstrString(user), wfValueString(v))
			}
		case *ir.FreeVar:
			if !frees[x] {
				c.fail("op.foreign", "block %d: %s uses free variable %s of another function", b.Index, wfInstrString(user), wfValueString(v))
			}
		case *ir.Function:
			// named functions are global; an anonymous one is used by its parent only
			if x.Parent() != nil && !anons[x] {
				c.fail("op.foreign", "block %d: %s uses anonymous function %s that is not in AnonFuncs", b.Index, wfInstrString(user), wfValueString(v))
			}
		case *ir.Global, *ir.Const:
		case *ir.AggregateConst:
			for _, e := range x.Values {
				if e == nil {
					c.fail("op.nil", "block %d: %s: aggregate constant with nil element", b.Index, wfInstrString(user))
					continue
				}
				checkVal(user, b, e, false)
			}
		case *ir.Builtin:
			// "Builtins can only appear in CallCommon.Func."
			if !callee {
				c.fail("op.builtin", "block %d: %s uses builtin %s as an ordinary operand", b.Index, wfInstrString(user), x.Name())
			}
		default:
			instr, isInstr := v.(ir.Instruction)
			if !isInstr {
				c.fail("op.kind", "block %d: %s has operand of unexpected kind %T", b.Index, wfInstrString(user), v)
				return
			}
			if _, here := c.pos[instr]; !here {
				if instr.Block() != nil && instr.Block().Parent() != fn {
					c.fail("op.foreign", "block %d: %s uses %s, an instruction of another function", b.Index, wfInstrString(user), wfValueString(v))
				} else {
					c.fail("op.dangling", "block %d: %s uses %s, which is not an instruction of any block of the function", b.Index, wfInstrString(user), wfValueString(v))
				}
			}
		}
		if v.Type() == nil {
			c.fail("op.notype", "block %d: %s: operand %s has nil type", b.Index, wfInstrString(user), wfValueString(v))
		}
	}
	for _, b := range fn.Blocks {
		for _, instr := range b.Instrs {
			if v, ok := instr.(ir.Value); ok {
				c.owned[v] = true
				if v.Type() == nil {
					c.fail("val.notype", "block %d: %s has nil type", b.Index, wfInstrString(instr))
				}
			}
			rands = instr.Operands(rands[:0])
			var calleeSlot *ir.Value
			if ci, ok := instr.(ir.CallInstruction); ok && !ci.Common().IsInvoke() {
				calleeSlot = &ci.Common().Value
			}
			for k, r := range rands {
				if r == nil {
					c.fail("op.nilslot", "block %d: %s: Operands()[%d] is a nil address", b.Index, wfInstrString(instr), k)
					continue
				}
				if *r == nil {
					if !wfMayBeNil(instr, k, len(rands)) {
						c.fail("op.nil", "block %d: %s: operand %d is nil", b.Index, wfInstrString(instr), k)
					}
					continue
				}
				checkVal(instr, b, *r, r == calleeSlot)
			}
		}
	}
}

// referrers: for every value of the function that tracks referrers, Referrers() and Operands() are
// inverse relations: r is listed by v iff r uses v, and never more often than it uses v. ("Referrers returns the list of
// instructions that have this value as one of their operands; it may contain duplicates if an
// instruction has a repeated operand." / "Instruction.Operands contains the inverse of this
// relation.")
func (c *wfChecker) referrers() {
	fn := c.fn
	type key struct {
		v ir.Value
		i ir.Instruction
	}
	uses := map[key]int{}
	var rands []*ir.Value
	for _, b := range fn.Blocks {
		for _, instr := range b.Instrs {
			rands = instr.Operands(rands[:0])
			for _, r := range rands {
				if r == nil || *r == nil {
					continue
				}
				if c.owned[*r] {
					uses[key{*r, instr}]++
				}
			}
		}
	}
	// deterministic order of owned values: params, freevars, anon funcs, then instructions in order
	var vals []ir.Value
	for _, p := range fn.Params {
		vals = append(vals, p)
	}
	for _, f := range fn.FreeVars {
		vals = append(vals, f)
	}
	for _, a := range fn.AnonFuncs {
		vals = append(vals, a)
	}
	for _, b := range fn.Blocks {
		for _, instr := range b.Instrs {
			if v, ok := instr.(ir.Value); ok {
				vals = append(vals, v)
			}
		}
	}
	for _, v := range vals {
		refs := v.Referrers()
		if refs == nil {
			if _, isInstr := v.(ir.Instruction); isInstr {
				c.fail("ref.untracked", "%s is a value-defining instruction but Referrers() is nil", wfValueString(v))
			}
			continue
		}
		got := map[ir.Instruction]int{}
		for _, r := range *refs {
			if r == nil {
				c.fail("ref.nil", "Referrers of %s contains nil", wfValueString(v))
				continue
			}
			got[r]++
		}
		for _, r := range *refs {
			if r == nil {
				continue
			}
			if _, here := c.pos[r]; !here {
				c.fail("ref.stale", "Referrers of %s contains %s, which is not an instruction of the function", wfValueString(v), wfInstrString(r))
				continue
			}
			n := uses[key{v, r}]
			if n == 0 {
				c.fail("ref.stale", "Referrers of %s contains %s, which does not have it as an operand", wfValueString(v), wfInstrString(r))
			} else if got[r] > n {
				// duplicates are justified only by repeated operands
				c.fail("ref.count", "Referrers of %s lists %s %d times, but it has the value as operand only %d times", wfValueString(v), wfInstrString(r), got[r], n)
			} else if got[r] < n {
				// Not asserted. The documentation says Referrers "may contain duplicates if an
				// instruction has a repeated operand": the number of duplicates is left open, only
				// membership is promised. On the unchanged tree lift.go's replace() (renaming an
				// Alloc to its split alloc) records an instruction once even if it uses the value
				// in two operand slots (a φ-node with the same Alloc on two edges), whereas
				// buildReferrers/replaceAll record it once per slot. Demanding equal multiplicity
				// would over-read the documentation, so the shortfall is only counted.
				c.unassert("referrers_list_an_instruction_fewer_times_than_it_uses_the_value")
			}
		}
	}
	// the other direction: each use is recorded
	for _, b := range fn.Blocks {
		for _, instr := range b.Instrs {
			rands = instr.Operands(rands[:0])
			for _, r := range rands {
				if r == nil || *r == nil || !c.owned[*r] {
					continue
				}
				refs := (*r).Referrers()
				if refs == nil {
					continue
				}
				found := false
				for _, x := range *refs {
					if x == instr {
						found = true
						break
					}
				}
				if !found {
					c.fail("ref.missing", "block %d: %s uses %s but is missing from its Referrers", b.Index, wfInstrString(instr), wfValueString(*r))
				}
			}
		}
	}
}

// ---------------------------------------------------------------------------------------------
// dominance

type wfBits []uint64

func wfNewBits(n int) wfBits    { return make(wfBits, (n+63)/64) }
func (s wfBits) has(i int) bool { return s[i/64]&(1<<(uint(i)%64)) != 0 }
func (s wfBits) set(i int)      { s[i/64] |= 1 << (uint(i) % 64) }
func (s wfBits) fill(n int) {
	for i := 0; i < n; i++ {
		s.set(i)
	}
}

// wfSuccs returns the successors of block i for dominance purposes. Recover is a second entry
// point "to which control resumes after a recovered panic", i.e. only after the function was
// entered: it is modelled as a successor of the entry block (the documented Recover block loads
// the named results, whose Allocs live in the entry block, so the documentation presupposes
// that the entry block dominates it).
func wfSuccs(fn *ir.Function, i int, f func(int)) {
	for _, s := range fn.Blocks[i].Succs {
		f(s.Index)
	}
	if i == 0 && fn.Recover != nil && fn.Recover.Index != 0 {
		f(fn.Recover.Index)
	}
}

func wfReach(fn *ir.Function, removed int) []bool {
	n := len(fn.Blocks)
	seen := make([]bool, n)
	if removed == 0 {
		return seen
	}
	seen[0] = true
	stack := []int{0}
	for len(stack) > 0 {
		v := stack[len(stack)-1]
		stack = stack[:len(stack)-1]
		wfSuccs(fn, v, func(s int) {
			if s != removed && !seen[s] {
				seen[s] = true
				stack = append(stack, s)
			}
		})
	}
	return seen
}

// wfDomByRemoval: dom[b] = set of blocks a such that every path entry->b passes through a.
func wfDomByRemoval(fn *ir.Function) (dom []wfBits, reachable []bool) {
	n := len(fn.Blocks)
	reachable = wfReach(fn, -1)
	dom = make([]wfBits, n)
	for b := range dom {
		dom[b] = wfNewBits(n)
	}
	for a := 0; a < n; a++ {
		if !reachable[a] {
			continue
		}
		r := wfReach(fn, a)
		for b := 0; b < n; b++ {
			if reachable[b] && (a == b || !r[b]) {
				dom[b].set(a)
			}
		}
	}
	return dom, reachable
}

// wfDomIterative: greatest solution of Dom(entry)={entry}, Dom(b)={b} ∪ ⋂_{p∈preds(b)} Dom(p).
func wfDomIterative(fn *ir.Function) (dom []wfBits, reachable []bool) {
	n := len(fn.Blocks)
	reachable = wfReach(fn, -1)
	dom = make([]wfBits, n)
	for b := range dom {
		dom[b] = wfNewBits(n)
		if b == 0 {
			dom[b].set(0)
		} else if reachable[b] {
			dom[b].fill(n)
		}
	}
	// reverse postorder over reachable blocks
	var order []int
	state := make([]uint8, n)
	type frame struct {
		b    int
		next []int
	}
	succsOf := func(i int) []int {
		var out []int
		wfSuccs(fn, i, func(s int) { out = append(out, s) })
		return out
	}
	stack := []frame{{0, succsOf(0)}}
	state[0] = 1
	for len(stack) > 0 {
		f := &stack[len(stack)-1]
		if len(f.next) == 0 {
			order = append(order, f.b)
			stack = stack[:len(stack)-1]
			continue
		}
		s := f.next[0]
		f.next = f.next[1:]
		if state[s] == 0 {
			state[s] = 1
			stack = append(stack, frame{s, succsOf(s)})
		}
	}
	for i, j := 0, len(order)-1; i < j; i, j = i+1, j-1 {
		order[i], order[j] = order[j], order[i]
	}
	tmp := wfNewBits(n)
	for changed := true; changed; {
		changed = false
		for _, b := range order {
			if b == 0 {
				continue
			}
			for i := range tmp {
				tmp[i] = ^uint64(0)
			}
			meet := func(p int) {
				if !reachable[p] {
					return
				}
				for i := range tmp {
					tmp[i] &= dom[p][i]
				}
			}
			for _, p := range fn.Blocks[b].Preds {
				meet(p.Index)
			}
			if fn.Recover != nil && fn.Recover.Index == b {
				meet(0)
			}
			// clear padding bits beyond n, then add b
			if n%64 != 0 {
				tmp[len(tmp)-1] &= (1 << (uint(n) % 64)) - 1
			}
			tmp.set(b)
			for i := range tmp {
				if tmp[i] != dom[b][i] {
					changed = true
					copy(dom[b], tmp)
					break
				}
			}
		}
	}
	return dom, reachable
}

const (
	wfRemovalMaxBlocks = 400 // node removal is quadratic; beyond this the iterative solver is used
	wfCrossMaxBlocks   = 48  // both algorithms are run and compared up to this size
)

func (c *wfChecker) dominance() {
	fn := c.fn
	n := len(fn.Blocks)
	var dom []wfBits
	var reachable []bool
	if n <= wfRemovalMaxBlocks {
		dom, reachable = wfDomByRemoval(fn)
		if n <= wfCrossMaxBlocks {
			d2, r2 := wfDomIterative(fn)
			c.st.DomSelfChecked = true
		cmp:
			for b := 0; b < n; b++ {
				if reachable[b] != r2[b] {
					c.st.DomMismatch = fmt.Sprintf("reachability of block %d", b)
					break
				}
				for i := range dom[b] {
					if dom[b][i] != d2[b][i] {
						c.st.DomMismatch = fmt.Sprintf("dominators of block %d", b)
						break cmp
					}
				}
			}
		}
	} else {
		dom, reachable = wfDomIterative(fn)
	}
	for b := 0; b < n; b++ {
		if !reachable[b] {
			c.st.Unreachable++
		}
	}
	var rands []*ir.Value
	for _, b := range fn.Blocks {
		if !reachable[b.Index] {
			continue // every block vacuously dominates an unreachable one
		}
		for ui, user := range b.Instrs {
			rands = user.Operands(rands[:0])
			phi, isPhi := user.(*ir.Phi)
			for k, r := range rands {
				if r == nil || *r == nil {
					continue
				}
				def, ok := (*r).(ir.Instruction)
				if !ok {
					continue // parameters, free variables, constants, globals, functions: defined on entry
				}
				dp, here := c.pos[def]
				if !here {
					continue // reported by operands()
				}
				if isPhi {
					if k >= len(b.Preds) || len(phi.Edges) != len(b.Preds) {
						continue // reported by phi.edges
					}
					p := b.Preds[k].Index
					if !reachable[p] {
						continue
					}
					// the definition must dominate the END of the predecessor
					if !dom[p].has(dp.b) {
						c.fail("dom.phi", "block %d: edge %d (from block %d) of φ-node %s is %s, defined in block %d, which does not dominate block %d",
							b.Index, k, p, wfInstrString(user), wfValueString(*r), dp.b, p)
					}
					continue
				}
				if dp.b == b.Index {
					if dp.i >= ui {
						c.fail("dom.use", "block %d: %s (position %d) uses %s, defined at position %d of the same block", b.Index, wfInstrString(user), ui, wfValueString(*r), dp.i)
					}
					continue
				}
				if !dom[b.Index].has(dp.b) {
					c.fail("dom.use", "block %d: %s uses %s, defined in block %d, which does not dominate block %d", b.Index, wfInstrString(user), wfValueString(*r), dp.b, b.Index)
				}
			}
		}
	}
}

// locals: "If Heap is false ... the Alloc must be present in Function.Locals"; Locals are the
// "frame-allocated variables of this function".
func (c *wfChecker) locals() {
	fn := c.fn
	inLocals := map[*ir.Alloc]int{}
	for i, l := range fn.Locals {
		if l == nil {
			c.fail("locals.nil", "Locals[%d] is nil", i)
			continue
		}
		inLocals[l]++
		if inLocals[l] > 1 {
			c.fail("locals.dup", "Locals lists %s twice", wfValueString(l))
		}
		if l.Heap {
			c.fail("locals.heap", "Locals contains heap Alloc %s", wfValueString(l))
		}
		if _, here := c.pos[l]; !here {
			// Not asserted: the statement speaks of operands, dominance, CFG and referrer inverses and
			// documented typing rules; Alloc's documentation requires every frame Alloc to be IN
			// Locals (locals.missing), not that Locals holds nothing else. In naive form Locals keeps
			// Allocs of deleted unreachable blocks and fused loop cells (thousands of functions in
			// std); counted, not reported.
			c.unassert("locals.stale")
		}
	}
	for _, b := range fn.Blocks {
		for _, instr := range b.Instrs {
			if a, ok := instr.(*ir.Alloc); ok && !a.Heap && inLocals[a] == 0 {
				c.fail("locals.missing", "block %d: local Alloc %s is not in Locals", b.Index, wfInstrString(instr))
			}
		}
	}
}

// ---------------------------------------------------------------------------------------------
// types

func wfIsTypeParam(t types.Type) bool {
	_, ok := types.Unalias(t).(*types.TypeParam)
	return ok
}

// wfMentionsTypeParam reports whether t contains a type parameter anywhere (conservatively true
// for generic signatures and uninstantiated generic named types).
func wfMentionsTypeParam(t types.Type) bool {
	seen := map[types.Type]bool{}
	var visit func(t types.Type) bool
	visit = func(t types.Type) bool {
		if t == nil || seen[t] {
			return false
		}
		seen[t] = true
		switch t := t.(type) {
		case *types.Basic:
			return false
		case *types.Alias:
			return visit(types.Unalias(t))
		case *types.TypeParam:
			return true
		case *types.Pointer:
			return visit(t.Elem())
		case *types.Slice:
			return visit(t.Elem())
		case *types.Array:
			return visit(t.Elem())
		case *types.Chan:
			return visit(t.Elem())
		case *types.Map:
			return visit(t.Key()) || visit(t.Elem())
		case *types.Struct:
			for i := 0; i < t.NumFields(); i++ {
				if visit(t.Field(i).Type()) {
					return true
				}
			}
		case *types.Tuple:
			for i := 0; i < t.Len(); i++ {
				if visit(t.At(i).Type()) {
					return true
				}
			}
		case *types.Signature:
			if t.TypeParams().Len() > 0 || t.RecvTypeParams().Len() > 0 {
				return true
			}
			if t.Recv() != nil && visit(t.Recv().Type()) {
				return true
			}
			return visit(t.Params()) || visit(t.Results())
		case *types.Interface:
			for i := 0; i < t.NumExplicitMethods(); i++ {
				if visit(t.ExplicitMethod(i).Type()) {
					return true
				}
			}
			for i := 0; i < t.NumEmbeddeds(); i++ {
				if visit(t.EmbeddedType(i)) {
					return true
				}
			}
		case *types.Union:
			for i := 0; i < t.Len(); i++ {
				if visit(t.Term(i).Type()) {
					return true
				}
			}
		case *types.Named:
			if t.TypeParams().Len() > 0 && t.TypeArgs().Len() == 0 {
				return true
			}
			for i := 0; i < t.TypeArgs().Len(); i++ {
				if visit(t.TypeArgs().At(i)) {
					return true
				}
			}
			// a type declared inside a generic function may mention its type parameters
			if obj := t.Obj(); obj != nil && obj.Parent() != nil && obj.Pkg() != nil && obj.Parent() != obj.Pkg().Scope() && obj.Parent() != types.Universe {
				return visit(t.Underlying())
			}
		}
		return false
	}
	return visit(t)
}

// wfTerms returns the underlying types of the type set of t: {t.Underlying()} for an ordinary
// type, the underlying types of the normal terms for a type parameter. known=false means the
// type set could not be enumerated (no terms, e.g. `any`): rules depending on it are skipped.
func wfTerms(t types.Type) (terms []types.Type, known bool) {
	if t == nil {
		return nil, false
	}
	if tp, ok := types.Unalias(t).(*types.TypeParam); ok {
		nts, err := typeparams.NormalTerms(tp)
		if err != nil || len(nts) == 0 {
			return nil, false
		}
		for _, nt := range nts {
			terms = append(terms, nt.Type().Underlying())
		}
		return terms, true
	}
	return []types.Type{t.Underlying()}, true
}

// tri-state result of a type rule
type wfTri int

const (
	wfYes wfTri = iota
	wfNo
	wfUnknown
)

func wfAll(t types.Type, pred func(u types.Type) bool) wfTri {
	terms, known := wfTerms(t)
	if !known {
		return wfUnknown
	}
	for _, u := range terms {
		if !pred(u) {
			return wfNo
		}
	}
	return wfYes
}

// wfElem applies sel to every term of t and returns the common result if all terms agree.
func wfCommon(t types.Type, sel func(u types.Type) types.Type) (types.Type, wfTri) {
	terms, known := wfTerms(t)
	if !known {
		return nil, wfUnknown
	}
	var res types.Type
	for _, u := range terms {
		e := sel(u)
		if e == nil {
			return nil, wfNo
		}
		if res == nil {
			res = e
		} else if !types.Identical(res, e) {
			return nil, wfUnknown // terms disagree: no single element type is documented
		}
	}
	return res, wfYes
}

func wfIsInteger(u types.Type) bool {
	b, ok := u.(*types.Basic)
	return ok && b.Info()&types.IsInteger != 0
}
func wfIsBoolean(u types.Type) bool {
	b, ok := u.(*types.Basic)
	return ok && b.Info()&types.IsBoolean != 0
}
func wfIsString(u types.Type) bool {
	b, ok := u.(*types.Basic)
	return ok && b.Info()&types.IsString != 0
}
func wfIsBasic(u types.Type) bool { _, ok := u.(*types.Basic); return ok }

// a non-type-parameter interface type
func wfIsIface(t types.Type) bool {
	if wfIsTypeParam(t) {
		return false
	}
	_, ok := t.Underlying().(*types.Interface)
	return ok
}

func (c *wfChecker) typing() {
	for _, b := range c.fn.Blocks {
		for _, instr := range b.Instrs {
			c.typeInstr(b, instr)
		}
	}
}

// tfail reports a typing violation for instr.
func (c *wfChecker) tfail(b *ir.BasicBlock, instr ir.Instruction, what, format string, a ...any) {
	rule := fmt.Sprintf("type.%s.%s", strings.TrimPrefix(fmt.Sprintf("%T", instr), "*ir."), what)
	c.fail(rule, "block %d: %s: %s", b.Index, wfInstrString(instr), fmt.Sprintf(format, a...))
}

// expect evaluates a tri-state: No is a violation, Unknown is counted.
func (c *wfChecker) expect(b *ir.BasicBlock, instr ir.Instruction, r wfTri, what, format string, a ...any) {
	switch r {
	case wfNo:
		c.tfail(b, instr, what, format, a...)
	case wfUnknown:
		c.st.Skipped++
	}
}

// same: types t and want must be identical; skipped when either mentions a type parameter and
// they differ (substitution may be pending in a generic body).
func (c *wfChecker) same(b *ir.BasicBlock, instr ir.Instruction, what string, got, want types.Type, desc string) {
	if got == nil || want == nil {
		return
	}
	if types.Identical(got, want) {
		return
	}
	if wfMentionsTypeParam(got) || wfMentionsTypeParam(want) {
		c.st.Skipped++
		return
	}
	c.tfail(b, instr, what, "%s: have %s, want %s", desc, got, want)
}

func (c *wfChecker) typeInstr(b *ir.BasicBlock, instr ir.Instruction) {
	tt := func(v ir.Value) types.Type {
		if v == nil {
			return nil
		}
		return v.Type()
	}
	switch x := instr.(type) {
	case *ir.Alloc:
		// "Alloc values are always addresses, and have pointer types"
		if _, ok := x.Type().Underlying().(*types.Pointer); !ok {
			c.tfail(b, instr, "pointer", "type %s is not a pointer", x.Type())
		}

	case *ir.Phi:
		// a φ-node "combines values that differ across incoming control-flow edges and yields a
		// new value": the value it yields is one of its edges, so the types coincide.
		for k, e := range x.Edges {
			if e == nil {
				continue
			}
			if !types.Identical(tt(e), x.Type()) {
				c.same(b, instr, "edge", tt(e), x.Type(), fmt.Sprintf("edge %d (%s)", k, wfValueString(e)))
			}
		}

	case *ir.Call:
		c.callCommon(b, instr, &x.Call, x)
	case *ir.Go:
		c.callCommon(b, instr, &x.Call, nil)
	case *ir.Defer:
		c.callCommon(b, instr, &x.Call, nil)

	case *ir.BinOp:
		if x.X == nil || x.Y == nil {
			return
		}
		switch x.Op {
		case token.ADD, token.SUB, token.MUL, token.QUO, token.REM, token.AND, token.OR, token.XOR, token.AND_NOT:
			// "the result of binary operation X Op Y": Go's arithmetic operators take operands of
			// identical type and yield that type.
			c.same(b, instr, "operand", tt(x.X), x.Type(), "left operand vs result")
			c.same(b, instr, "operand", tt(x.Y), x.Type(), "right operand vs result")
		case token.SHL, token.SHR:
			c.same(b, instr, "shift", tt(x.X), x.Type(), "shifted operand vs result")
			c.expect(b, instr, wfAll(tt(x.Y), wfIsInteger), "shiftcount", "shift count has non-integer type %s", tt(x.Y))
		case token.EQL, token.NEQ, token.LSS, token.LEQ, token.GTR, token.GEQ:
			c.expect(b, instr, wfAll(x.Type(), wfIsBoolean), "cmpresult", "comparison has non-boolean type %s", x.Type())
		default:
			c.tfail(b, instr, "op", "operator %s is not one of the documented binary operators", x.Op)
		}

	case *ir.UnOp:
		// "Op token.Token // One of: NOT SUB XOR ! - ^"
		switch x.Op {
		case token.NOT, token.SUB, token.XOR:
			c.same(b, instr, "operand", tt(x.X), x.Type(), "operand vs result")
		default:
			c.tfail(b, instr, "op", "operator %s is not one of NOT SUB XOR", x.Op)
		}

	case *ir.Load:
		// "loads a value from a memory address": X is *T and the result is T.
		elem, r := wfCommon(tt(x.X), func(u types.Type) types.Type {
			if p, ok := u.(*types.Pointer); ok {
				return p.Elem()
			}
			return nil
		})
		c.expect(b, instr, r, "pointer", "address operand has non-pointer type %s", tt(x.X))
		if r == wfYes {
			c.same(b, instr, "elem", x.Type(), elem, "loaded type vs pointee of the address operand")
		}

	case *ir.Store:
		// "stores Val at address Addr": Addr is *T and Val is a T.
		elem, r := wfCommon(tt(x.Addr), func(u types.Type) types.Type {
			if p, ok := u.(*types.Pointer); ok {
				return p.Elem()
			}
			return nil
		})
		c.expect(b, instr, r, "pointer", "address operand has non-pointer type %s", tt(x.Addr))
		if r == wfYes && x.Val != nil {
			c.same(b, instr, "elem", tt(x.Val), elem, "stored value vs pointee of the address operand")
		}

	case *ir.ChangeType:
		c.changeType(b, x)

	case *ir.Convert:
		s, d := tt(x.X), x.Type()
		if s == nil || wfMentionsTypeParam(s) || wfMentionsTypeParam(d) {
			c.st.Skipped++
			return
		}
		// "One or both of those types is basic (but possibly named)."
		if !wfIsBasic(s.Underlying()) && !wfIsBasic(d.Underlying()) {
			c.tfail(b, instr, "basic", "neither %s nor %s is basic", s, d)
		}
		if !types.ConvertibleTo(s, d) {
			c.tfail(b, instr, "convertible", "%s is not convertible to %s", s, d)
		}

	case *ir.MultiConvert:
		// "Either X.Type() or Type() must be a type parameter."
		if !wfIsTypeParam(tt(x.X)) && !wfIsTypeParam(x.Type()) {
			c.tfail(b, instr, "typeparam", "neither %s nor %s is a type parameter", tt(x.X), x.Type())
		}

	case *ir.ChangeInterface:
		// "constructs a value of one interface type from a value of another interface type known
		// to be assignable to it"
		s, d := tt(x.X), x.Type()
		if s == nil {
			return
		}
		if !wfIsIface(s) {
			c.tfail(b, instr, "source", "operand type %s is not an interface", s)
		}
		if !wfIsIface(d) {
			c.tfail(b, instr, "target", "result type %s is not an interface", d)
		}
		if wfIsIface(s) && wfIsIface(d) {
			if wfMentionsTypeParam(s) || wfMentionsTypeParam(d) {
				c.st.Skipped++
			} else if !types.AssignableTo(s, d) {
				// e.(T) with T a superinterface also produces ChangeInterface; assignability is what the doc states
				c.tfail(b, instr, "assignable", "%s is not assignable to %s", s, d)
			}
		}

	case *ir.SliceToArrayPointer:
		s, d := tt(x.X), x.Type()
		if s == nil || wfMentionsTypeParam(s) || wfMentionsTypeParam(d) {
			c.st.Skipped++
			return
		}
		sl, ok1 := s.Underlying().(*types.Slice)
		p, ok2 := d.Underlying().(*types.Pointer)
		var arr *types.Array
		if ok2 {
			arr, _ = p.Elem().Underlying().(*types.Array)
		}
		if !ok1 || arr == nil {
			c.tfail(b, instr, "shape", "%s <- %s is not slice to array pointer", d, s)
		} else if !types.Identical(sl.Elem(), arr.Elem()) {
			c.tfail(b, instr, "elem", "element types differ: %s <- %s", d, s)
		}

	case *ir.SliceToArray:
		s, d := tt(x.X), x.Type()
		if s == nil || wfMentionsTypeParam(s) || wfMentionsTypeParam(d) {
			c.st.Skipped++
			return
		}
		sl, ok1 := s.Underlying().(*types.Slice)
		arr, ok2 := d.Underlying().(*types.Array)
		if !ok1 || !ok2 {
			c.tfail(b, instr, "shape", "%s <- %s is not slice to array", d, s)
		} else if !types.Identical(sl.Elem(), arr.Elem()) {
			c.tfail(b, instr, "elem", "element types differ: %s <- %s", d, s)
		}

	case *ir.MakeInterface:
		// "constructs an instance of an interface type from a value of a concrete type"
		if !wfIsIface(x.Type()) {
			if wfIsTypeParam(x.Type()) {
				c.st.Skipped++
			} else {
				c.tfail(b, instr, "target", "result type %s is not an interface", x.Type())
			}
		}
		if s := tt(x.X); s != nil && wfIsIface(s) {
			c.tfail(b, instr, "source", "operand type %s is an interface, not a concrete type", s)
		}

	case *ir.MakeClosure:
		// "Fn always a *Function"; "Bindings: values for each free variable in Fn.FreeVars";
		// "Type() returns a (possibly named) *types.Signature."
		f, ok := x.Fn.(*ir.Function)
		if !ok {
			c.tfail(b, instr, "fn", "Fn is a %T, not a *Function", x.Fn)
			return
		}
		if len(x.Bindings) != len(f.FreeVars) {
			c.tfail(b, instr, "bindings", "%d bindings for %d free variables", len(x.Bindings), len(f.FreeVars))
		} else {
			for i, bd := range x.Bindings {
				if bd != nil {
					if !types.Identical(tt(bd), f.FreeVars[i].Type()) {
						c.same(b, instr, "binding", tt(bd), f.FreeVars[i].Type(), fmt.Sprintf("binding %d vs free variable %s", i, f.FreeVars[i].Name()))
					}
				}
			}
		}
		if _, ok := x.Type().Underlying().(*types.Signature); !ok {
			c.tfail(b, instr, "signature", "type %s is not a signature", x.Type())
		}

	case *ir.MakeMap:
		// "Type() returns a (possibly named) *types.Map."
		c.expect(b, instr, wfAll(x.Type(), func(u types.Type) bool { _, ok := u.(*types.Map); return ok }), "map", "type %s is not a map", x.Type())

	case *ir.MakeChan:
		// "Type() returns a (possibly named) *types.Chan."; "Size Value // int"
		c.expect(b, instr, wfAll(x.Type(), func(u types.Type) bool { _, ok := u.(*types.Chan); return ok }), "chan", "type %s is not a channel", x.Type())
		if x.Size != nil {
			c.expect(b, instr, wfAll(tt(x.Size), wfIsInteger), "size", "Size has non-integer type %s", tt(x.Size))
		}

	case *ir.MakeSlice:
		// "Both Len and Cap must be non-nil Values of integer type." "Type() returns a (possibly named) *types.Slice."
		c.expect(b, instr, wfAll(x.Type(), func(u types.Type) bool { _, ok := u.(*types.Slice); return ok }), "slice", "type %s is not a slice", x.Type())
		if x.Len != nil {
			c.expect(b, instr, wfAll(tt(x.Len), wfIsInteger), "len", "Len has non-integer type %s", tt(x.Len))
		}
		if x.Cap != nil {
			c.expect(b, instr, wfAll(tt(x.Cap), wfIsInteger), "cap", "Cap has non-integer type %s", tt(x.Cap))
		}

	case *ir.Slice:
		c.slice(b, x)

	case *ir.FieldAddr:
		// X is *struct; Field indexes the struct's fields; "Type() returns a (possibly named) *types.Pointer" (to the field)
		st, r := wfCommon(tt(x.X), func(u types.Type) types.Type {
			if p, ok := u.(*types.Pointer); ok {
				if s, ok := wfSoleUnder(p.Elem()).(*types.Struct); ok {
					return s
				}
			}
			return nil
		})
		c.expect(b, instr, r, "operand", "operand type %s is not a pointer to struct", tt(x.X))
		if r == wfYes {
			s := st.(*types.Struct)
			if x.Field < 0 || x.Field >= s.NumFields() {
				c.tfail(b, instr, "index", "field index %d out of range [0,%d)", x.Field, s.NumFields())
			} else if p, ok := x.Type().Underlying().(*types.Pointer); !ok {
				c.tfail(b, instr, "pointer", "type %s is not a pointer", x.Type())
			} else {
				c.same(b, instr, "fieldtype", p.Elem(), s.Field(x.Field).Type(), "pointee vs type of the field")
			}
		}

	case *ir.Field:
		st, r := wfCommon(tt(x.X), func(u types.Type) types.Type {
			if s, ok := u.(*types.Struct); ok {
				return s
			}
			return nil
		})
		c.expect(b, instr, r, "operand", "operand type %s is not a struct", tt(x.X))
		if r == wfYes {
			s := st.(*types.Struct)
			if x.Field < 0 || x.Field >= s.NumFields() {
				c.tfail(b, instr, "index", "field index %d out of range [0,%d)", x.Field, s.NumFields())
			} else {
				c.same(b, instr, "fieldtype", x.Type(), s.Field(x.Field).Type(), "result vs type of the field")
			}
		}

	case *ir.IndexAddr:
		// X: "*array, slice or type parameter with types array, *array, or slice"; Index "numeric index";
		// "Type() returns a (possibly named) *types.Pointer."
		tp := wfIsTypeParam(tt(x.X))
		elem, r := wfCommon(tt(x.X), func(u types.Type) types.Type {
			switch u := u.(type) {
			case *types.Slice:
				return u.Elem()
			case *types.Pointer:
				if a, ok := wfSoleUnder(u.Elem()).(*types.Array); ok {
					return a.Elem()
				}
			case *types.Array:
				if tp {
					return u.Elem()
				}
			}
			return nil
		})
		c.expect(b, instr, r, "operand", "operand type %s is not a slice or pointer to array", tt(x.X))
		if r == wfYes {
			if p, ok := x.Type().Underlying().(*types.Pointer); !ok {
				c.tfail(b, instr, "pointer", "type %s is not a pointer", x.Type())
			} else {
				c.same(b, instr, "elem", p.Elem(), elem, "pointee vs element type of the operand")
			}
		}
		if x.Index != nil {
			c.expect(b, instr, wfAll(tt(x.Index), wfIsInteger), "index", "index has non-integer type %s", tt(x.Index))
		}

	case *ir.Index:
		// X: "array, string or type parameter with types array, *array, slice, or string"
		tp := wfIsTypeParam(tt(x.X))
		elem, r := wfCommon(tt(x.X), func(u types.Type) types.Type {
			switch u := u.(type) {
			case *types.Array:
				return u.Elem()
			case *types.Basic:
				if wfIsString(u) {
					return types.Typ[types.Byte]
				}
			case *types.Slice:
				if tp {
					return u.Elem()
				}
			case *types.Pointer:
				if a, ok := wfSoleUnder(u.Elem()).(*types.Array); ok && tp {
					return a.Elem()
				}
			}
			return nil
		})
		c.expect(b, instr, r, "operand", "operand type %s is not an array or string", tt(x.X))
		if r == wfYes {
			c.same(b, instr, "elem", x.Type(), elem, "result vs element type of the operand")
		}
		if x.Index != nil {
			c.expect(b, instr, wfAll(tt(x.Index), wfIsInteger), "index", "index has non-integer type %s", tt(x.Index))
		}

	case *ir.MapLookup:
		// "yields element Index of collection X, a map. Index is the appropriate key type."
		var key types.Type
		elem, r := wfCommon(tt(x.X), func(u types.Type) types.Type {
			if m, ok := u.(*types.Map); ok {
				key = m.Key()
				return m.Elem()
			}
			return nil
		})
		c.expect(b, instr, r, "operand", "operand type %s is not a map", tt(x.X))
		if r == wfYes {
			if x.Index != nil && !wfIsTypeParam(tt(x.X)) {
				c.same(b, instr, "key", tt(x.Index), key, "index vs key type")
			}
			c.valueOrCommaOk(b, instr, x.Type(), elem, x.CommaOk)
		}

	case *ir.StringLookup:
		c.expect(b, instr, wfAll(tt(x.X), wfIsString), "operand", "operand type %s is not a string", tt(x.X))
		if x.Index != nil {
			c.expect(b, instr, wfAll(tt(x.Index), wfIsInteger), "index", "index has non-integer type %s", tt(x.Index))
		}
		// "yields element Index of collection X, a string": a byte
		if bt, ok := x.Type().Underlying().(*types.Basic); !ok || bt.Kind() != types.Uint8 {
			c.tfail(b, instr, "byte", "type %s is not a byte", x.Type())
		}

	case *ir.Select:
		c.selectInstr(b, x)

	case *ir.Range:
		// "X, which must be a string or map"
		c.expect(b, instr, wfAll(tt(x.X), func(u types.Type) bool {
			_, m := u.(*types.Map)
			return m || wfIsString(u)
		}), "operand", "operand type %s is neither string nor map", tt(x.X))

	case *ir.Next:
		// "Type() returns a *types.Tuple for the triple (ok, k, v)."
		tup, ok := x.Type().(*types.Tuple)
		if !ok || tup.Len() != 3 {
			c.tfail(b, instr, "tuple", "type %s is not a 3-tuple", x.Type())
		} else if !wfIsBoolean(tup.At(0).Type().Underlying()) {
			c.tfail(b, instr, "ok", "first component %s is not boolean", tup.At(0).Type())
		}
		if r, ok := x.Iter.(*ir.Range); ok && r.X != nil {
			if s := wfAll(r.X.Type(), wfIsString); s != wfUnknown && (s == wfYes) != x.IsString {
				c.tfail(b, instr, "isstring", "IsString=%v but the iterator ranges over %s", x.IsString, r.X.Type())
			}
		}

	case *ir.TypeAssert:
		// "tests whether interface value X has type AssertedType"; "Type() reflects the actual type
		// of the result, possibly a 2-types.Tuple; AssertedType is the asserted type."
		if s := tt(x.X); s != nil {
			if _, ok := s.Underlying().(*types.Interface); !ok {
				c.tfail(b, instr, "operand", "operand type %s is not an interface", s)
			}
		}
		if x.AssertedType == nil {
			c.tfail(b, instr, "asserted", "AssertedType is nil")
			return
		}
		c.valueOrCommaOk(b, instr, x.Type(), x.AssertedType, x.CommaOk)

	case *ir.Extract:
		tup, ok := tt(x.Tuple).(*types.Tuple)
		if !ok {
			c.tfail(b, instr, "tuple", "operand type %v is not a tuple", tt(x.Tuple))
			return
		}
		if x.Index < 0 || x.Index >= tup.Len() {
			c.tfail(b, instr, "index", "index %d out of range of %s", x.Index, tup)
			return
		}
		c.same(b, instr, "component", x.Type(), tup.At(x.Index).Type(), "result vs selected component")

	case *ir.If:
		// "depending on the boolean Cond"
		if x.Cond != nil {
			c.expect(b, instr, wfAll(tt(x.Cond), wfIsBoolean), "cond", "condition has non-boolean type %s", tt(x.Cond))
		}

	case *ir.Return:
		// "len(Results) is always equal to the number of results in the function's signature."
		sig := c.fn.Signature
		if sig != nil && len(x.Results) != sig.Results().Len() {
			c.tfail(b, instr, "arity", "%d results, signature has %d", len(x.Results), sig.Results().Len())
		} else if sig != nil {
			// result types are not stated by the documentation: enumerated, not asserted
			for i, r := range x.Results {
				if r != nil && !types.Identical(r.Type(), sig.Results().At(i).Type()) && !wfMentionsTypeParam(r.Type()) && !wfMentionsTypeParam(sig.Results().At(i).Type()) {
					c.unassert("return_result_type_differs_from_signature")
				}
			}
		}

	case *ir.Panic:
		// "X Value // an interface{}"
		if s := tt(x.X); s != nil && !wfIsIface(s) {
			c.tfail(b, instr, "operand", "operand type %s is not an interface", s)
		}

	case *ir.Send:
		c.expect(b, instr, wfAll(tt(x.Chan), func(u types.Type) bool { _, ok := u.(*types.Chan); return ok }), "chan", "Chan has non-channel type %s", tt(x.Chan))

	case *ir.Recv:
		elem, r := wfCommon(tt(x.Chan), func(u types.Type) types.Type {
			if ch, ok := u.(*types.Chan); ok {
				return ch.Elem()
			}
			return nil
		})
		c.expect(b, instr, r, "chan", "Chan has non-channel type %s", tt(x.Chan))
		if r == wfYes {
			c.valueOrCommaOk(b, instr, x.Type(), elem, x.CommaOk)
		}

	case *ir.MapUpdate:
		var key types.Type
		elem, r := wfCommon(tt(x.Map), func(u types.Type) types.Type {
			if m, ok := u.(*types.Map); ok {
				key = m.Key()
				return m.Elem()
			}
			return nil
		})
		c.expect(b, instr, r, "map", "Map has non-map type %s", tt(x.Map))
		if r == wfYes && !wfIsTypeParam(tt(x.Map)) {
			// "updates the association of Map[Key] to Value"
			if x.Key != nil {
				c.same(b, instr, "key", tt(x.Key), key, "key vs key type")
			}
			if x.Value != nil {
				c.same(b, instr, "value", tt(x.Value), elem, "value vs element type")
			}
		}

	case *ir.DebugRef:
		// "Expr ast.Expr // the referring expression (never *ast.ParenExpr)"
		if _, ok := x.Expr.(*ast.ParenExpr); ok {
			c.tfail(b, instr, "paren", "Expr is a ParenExpr")
		}
		if x.Expr == nil {
			c.tfail(b, instr, "expr", "Expr is nil")
		}
		// "X represents the value (!IsAddr) or address (IsAddr) of that expression"
		if x.IsAddr && x.X != nil {
			c.expect(b, instr, wfAll(tt(x.X), func(u types.Type) bool { _, ok := u.(*types.Pointer); return ok }), "addr", "IsAddr but X has non-pointer type %s", tt(x.X))
		}

	case *ir.Jump, *ir.Unreachable, *ir.RunDefers, *ir.BlankStore,
		*ir.ConstantSwitch, *ir.TypeSwitch, *ir.CompositeValue:
		// no typing rule documented

	default:
		c.unassert(fmt.Sprintf("unknown_instruction_%T", instr))
	}
}

// wfSoleUnder is Underlying() for ordinary types and the single term for a type parameter with
// exactly one term; nil otherwise.
func wfSoleUnder(t types.Type) types.Type {
	terms, known := wfTerms(t)
	if !known || len(terms) != 1 {
		return nil
	}
	return terms[0]
}

// valueOrCommaOk: the result is T, or (T, bool) in comma-ok mode.
func (c *wfChecker) valueOrCommaOk(b *ir.BasicBlock, instr ir.Instruction, got, elem types.Type, commaOk bool) {
	if !commaOk {
		c.same(b, instr, "result", got, elem, "result type")
		return
	}
	tup, ok := got.(*types.Tuple)
	if !ok || tup.Len() != 2 {
		c.tfail(b, instr, "commaok", "CommaOk but type %s is not a 2-tuple", got)
		return
	}
	c.same(b, instr, "result", tup.At(0).Type(), elem, "first component")
	if !wfIsBoolean(tup.At(1).Type().Underlying()) {
		c.tfail(b, instr, "commaok", "second component %s is not boolean", tup.At(1).Type())
	}
}

// ChangeType: "Type changes are permitted: between a named type and its underlying type; between
// two named types of the same underlying type; between (possibly named) pointers to identical
// base types; from a bidirectional channel to a read- or write-channel, optionally
// adding/removing a name; between a type (t) and an instance of the type (tσ)".
// Struct tags are ignored, as Go's conversion rules do. Anything involving type parameters (the
// last clause, and "Type changes may to be to or from a type parameter") is not evaluated.
func (c *wfChecker) changeType(b *ir.BasicBlock, x *ir.ChangeType) {
	if x.X == nil {
		return
	}
	s, d := x.X.Type(), x.Type()
	if s == nil || d == nil {
		return
	}
	if wfMentionsTypeParam(s) || wfMentionsTypeParam(d) || len(c.fn.TypeArgs()) > 0 {
		c.st.Skipped++
		return
	}
	us, ud := s.Underlying(), d.Underlying()
	if types.IdenticalIgnoreTags(us, ud) {
		return
	}
	if ps, ok := us.(*types.Pointer); ok {
		if pd, ok := ud.(*types.Pointer); ok && types.IdenticalIgnoreTags(ps.Elem().Underlying(), pd.Elem().Underlying()) {
			return
		}
	}
	if cs, ok := us.(*types.Chan); ok {
		if cd, ok := ud.(*types.Chan); ok && cs.Dir() == types.SendRecv && types.Identical(cs.Elem(), cd.Elem()) {
			return
		}
	}
	c.tfail(b, x, "permitted", "change from %s to %s is none of the documented value-preserving changes", s, d)
}

// Slice: "yields a slice of an existing string, slice or *array X between optional integer bounds";
// "Type() returns string if the type of X was string, otherwise a *types.Slice with the same
// element type as X."
func (c *wfChecker) slice(b *ir.BasicBlock, x *ir.Slice) {
	if x.X == nil {
		return
	}
	s := x.X.Type()
	// the element type of the result, seen through a type parameter's terms (the documentation says
	// "(possibly named) *types.Slice"; a composite literal of type parameter type S ~[]E yields S)
	resElem := func() (types.Type, wfTri) {
		return wfCommon(x.Type(), func(u types.Type) types.Type {
			if sl, ok := u.(*types.Slice); ok {
				return sl.Elem()
			}
			return nil
		})
	}
	terms, known := wfTerms(s)
	if !known || wfIsTypeParam(s) {
		c.st.Skipped++
	} else {
		switch u := terms[0].(type) {
		case *types.Basic:
			if !wfIsString(u) {
				c.tfail(b, x, "operand", "operand type %s is not a string, slice or pointer to array", s)
			} else {
				c.expect(b, x, wfAll(x.Type(), wfIsString), "result", "slicing a string yields %s", x.Type())
			}
		case *types.Slice:
			e, r := resElem()
			c.expect(b, x, r, "result", "type %s is not a slice", x.Type())
			if r == wfYes {
				c.same(b, x, "elem", e, u.Elem(), "element type")
			}
		case *types.Pointer:
			a, ok := u.Elem().Underlying().(*types.Array)
			if !ok {
				c.tfail(b, x, "operand", "operand type %s is not a string, slice or pointer to array", s)
				break
			}
			e, r := resElem()
			c.expect(b, x, r, "result", "type %s is not a slice", x.Type())
			if r == wfYes {
				c.same(b, x, "elem", e, a.Elem(), "element type")
			}
		default:
			c.tfail(b, x, "operand", "operand type %s is not a string, slice or pointer to array", s)
		}
	}
	for _, bd := range []ir.Value{x.Low, x.High, x.Max} {
		if bd != nil {
			c.expect(b, x, wfAll(bd.Type(), wfIsInteger), "bound", "bound has non-integer type %s", bd.Type())
		}
	}
}

// Select: "Select returns an n+2-tuple (index int, recvOk bool, r₀ T₀, ... rₙ-1 Tₙ-1)" where the Tᵢ
// are the element types of the receive states' channels; Dir is SendOnly or RecvOnly.
func (c *wfChecker) selectInstr(b *ir.BasicBlock, x *ir.Select) {
	tup, ok := x.Type().(*types.Tuple)
	if !ok {
		c.tfail(b, x, "tuple", "type %s is not a tuple", x.Type())
		return
	}
	var recv []types.Type
	skip := false
	for i, st := range x.States {
		if st == nil {
			c.tfail(b, x, "state", "state %d is nil", i)
			return
		}
		if st.Dir != types.SendOnly && st.Dir != types.RecvOnly {
			c.tfail(b, x, "dir", "state %d has direction %v", i, st.Dir)
		}
		if st.Chan == nil {
			continue // op.nil
		}
		elem, r := wfCommon(st.Chan.Type(), func(u types.Type) types.Type {
			if ch, ok := u.(*types.Chan); ok {
				return ch.Elem()
			}
			return nil
		})
		c.expect(b, x, r, "chan", "state %d: channel has type %s", i, st.Chan.Type())
		if st.Dir == types.SendOnly && st.Send == nil {
			c.tfail(b, x, "send", "send state %d has no value", i)
		}
		if st.Dir == types.RecvOnly {
			if st.Send != nil {
				c.tfail(b, x, "send", "receive state %d has a Send value", i)
			}
			if r != wfYes {
				skip = true
			}
			recv = append(recv, elem)
		}
	}
	if tup.Len() != len(recv)+2 {
		c.tfail(b, x, "tuple", "%d receive states but tuple %s", len(recv), tup)
		return
	}
	if !wfIsInteger(tup.At(0).Type().Underlying()) {
		c.tfail(b, x, "index", "first component %s is not an integer", tup.At(0).Type())
	}
	if !wfIsBoolean(tup.At(1).Type().Underlying()) {
		c.tfail(b, x, "recvok", "second component %s is not boolean", tup.At(1).Type())
	}
	if !skip {
		for i, e := range recv {
			c.same(b, x, "recv", tup.At(i+2).Type(), e, fmt.Sprintf("component %d vs element type of receive state %d", i+2, i))
		}
	}
}

// callCommon: see the documentation of CallCommon. call is non-nil for *Call (whose result type is
// "the function result if there is exactly one. Otherwise it returns a tuple").
func (c *wfChecker) callCommon(b *ir.BasicBlock, instr ir.Instruction, cc *ir.CallCommon, call *ir.Call) {
	if cc.Value == nil {
		return
	}
	var sig *types.Signature
	nargs := len(cc.Args)
	if cc.IsInvoke() {
		// "Value is the interface value and Method is the interface's abstract method. The interface
		// value may be a type parameter."
		vt := cc.Value.Type()
		it, ok := vt.Underlying().(*types.Interface)
		if !ok {
			c.tfail(b, instr, "invoke", "invoke on non-interface type %s", vt)
			return
		}
		found := false
		for i := 0; i < it.NumMethods(); i++ {
			if it.Method(i).Id() == cc.Method.Id() {
				found = true
			}
		}
		if !found {
			c.tfail(b, instr, "method", "interface %s has no method %s", vt, cc.Method.Id())
		}
		sig, _ = cc.Method.Type().(*types.Signature)
		if sig == nil {
			return
		}
		// "Args[0] holds not the receiver but the first true argument"
		if nargs != sig.Params().Len() {
			c.tfail(b, instr, "arity", "%d arguments for method %s", nargs, sig)
			return
		}
		c.args(b, instr, cc.Args, sig, 0)
	} else {
		// "an ordinary function call of the value in Value, which may be a *Builtin, a *Function or
		// any other value of kind 'func'"
		st, r := wfCommon(cc.Value.Type(), func(u types.Type) types.Type {
			if s, ok := u.(*types.Signature); ok {
				return s
			}
			return nil
		})
		c.expect(b, instr, r, "callee", "callee %s has non-function type %s", wfValueString(cc.Value), cc.Value.Type())
		if r != wfYes {
			return
		}
		sig = st.(*types.Signature)
		off := 0
		if _, isBuiltin := cc.Value.(*ir.Builtin); !isBuiltin && sig.Recv() != nil {
			// "If Value is a method, Args[0] contains the receiver parameter."
			if _, isFn := cc.Value.(*ir.Function); isFn {
				off = 1
			}
		}
		if nargs != sig.Params().Len()+off {
			c.tfail(b, instr, "arity", "%d arguments for %s (receiver slots: %d)", nargs, sig, off)
			return
		}
		if off == 1 && cc.Args[0] != nil {
			c.assignable(b, instr, "recv", cc.Args[0].Type(), sig.Recv().Type(), "receiver argument")
		}
		c.args(b, instr, cc.Args[off:], sig, off)
	}
	if call != nil && sig != nil {
		res := sig.Results()
		switch res.Len() {
		case 1:
			c.same(b, instr, "result", call.Type(), res.At(0).Type(), "call type vs sole result")
		default:
			tup, ok := call.Type().(*types.Tuple)
			if !ok {
				c.tfail(b, instr, "result", "type %s of a call with %d results is not a tuple", call.Type(), res.Len())
			} else if tup.Len() != res.Len() {
				c.tfail(b, instr, "result", "tuple %s for %d results", tup, res.Len())
			} else {
				for i := 0; i < res.Len(); i++ {
					c.same(b, instr, "result", tup.At(i).Type(), res.At(i).Type(), "component of the result tuple")
				}
			}
		}
	}
}

func (c *wfChecker) args(b *ir.BasicBlock, instr ir.Instruction, args []ir.Value, sig *types.Signature, off int) {
	for i, a := range args {
		if a == nil {
			continue
		}
		if !types.Identical(a.Type(), sig.Params().At(i).Type()) {
			c.assignable(b, instr, "arg", a.Type(), sig.Params().At(i).Type(), fmt.Sprintf("argument %d", i+off))
		}
	}
	// "For all calls to variadic functions (Signature().Variadic()), the last element of Args is a slice."
	if sig.Variadic() && len(args) > 0 && args[len(args)-1] != nil {
		t := args[len(args)-1].Type()
		c.expect(b, instr, wfAll(t, func(u types.Type) bool {
			_, ok := u.(*types.Slice)
			return ok || wfIsString(u) // append([]byte, string...)
		}), "variadic", "last argument of a variadic call has type %s", t)
	}
}

func (c *wfChecker) assignable(b *ir.BasicBlock, instr ir.Instruction, what string, got, want types.Type, desc string) {
	if got == nil || want == nil || types.Identical(got, want) {
		return
	}
	if wfMentionsTypeParam(got) || wfMentionsTypeParam(want) {
		c.st.Skipped++
		return
	}
	if !types.AssignableTo(got, want) {
		c.tfail(b, instr, what, "%s: %s is not assignable to %s", desc, got, want)
	}
}

// wfDump renders the function for a violation message (bounded).
func wfDump(fn *ir.Function, max int) (s string) {
	defer func() {
		if e := recover(); e != nil {
			s = fmt.Sprintf("<WriteTo panicked: %v>", e)
		}
	}()
	var buf bytes.Buffer
	fn.WriteTo(&buf)
	s = buf.String()
	if len(s) > max {
		s = s[:max] + "\n…(truncated)"
	}
	return s
}

func wfSortedKeys(m map[string]int) []string {
	var ks []string
	for k := range m {
		ks = append(ks, k)
	}
	sort.Strings(ks)
	return ks
}
