//go:build verif

package ir_test

// C02 generators, part 3: statements whose header or operand expressions contain control flow.
//
// For every statement kind that has a header/operand expression (switch tag with constant and with
// non-constant cases, with/without default and fallthrough; tagless switch cases; type switch tag
// with and without binding; if cond/init; for init/cond/post; range operand; select send/recv
// operands; return/defer/go/call arguments; index/slice operands; composite literal elements;
// assignment right-hand sides and indexed/dereferenced left-hand sides; send; inc/dec; var decl)
// the operand is taken from
//
//	0  a                                  (control-flow-free baseline)
//	1  a && b
//	2  a || b
//	3  fb(a && b)                         (control flow inside a call argument)
//	4  noretb()                           (a call that cannot return, as buildir's SetNoReturn reports it)
//	5  func() bool { if a { panic("p") }; return b }()
//
// wrapped in a conversion helper where the statement needs another type (toi(E) int, toa(E) any,
// tos(E) []int, ...). The operand is evaluated first and may leave the builder in a different
// block than the one in which the statement started. Each (statement, operand) pair is its own
// program, so that a builder panic is attributed to exactly that pair.

import (
	"fmt"
	"strings"
)

type wfHdrSpec struct {
	Stmt int `json:"stmt"`
	Op   int `json:"op"`
}

var wfHdrOps = []string{
	"a",
	"a && b",
	"a || b",
	"fb(a && b)",
	"noretb()",
	`func() bool { if a { panic("p") }; return b }()`,
}

const wfHdrPrelude = `
type T struct{ f, g int }

func (t *T) set(n int) { t.f = n }

type I interface{ M() int }

func fb(x bool) bool       { return x }
func toi(x bool) int       { if x { return 1 }; return 0 }
func toa(x bool) any       { if x { return 1 }; return "s" }
func tos(x bool) []int     { return []int{1, 2, 3} }
func tostr(x bool) string  { if x { return "t" }; return "f" }
func tom(x bool) map[string]int { return map[string]int{"t": 1} }
func toch(x bool) chan int { return make(chan int, 1) }
func top(x bool) *int      { return new(int) }
func tot(x bool) *T        { return &T{} }
func toarr(x bool) [3]int  { return [3]int{} }
func toseq(x bool) func(func(int) bool) {
	return func(yield func(int) bool) { _ = yield(1) }
}
func fi(n int) int { return n }
func fv(ns ...int) int { return len(ns) }
func noretb() bool { panic("never returns") }
`

type wfHdrStmt struct {
	Name string
	// Body is the function body; E is the operand. Sig overrides the default signature.
	Body string
	Sig  string
}

const wfHdrSig = "(a, b bool, n int, s []int, m map[string]int, ch chan int, v any) (r int)"

var wfHdrStmts = []wfHdrStmt{
	// switch, constant cases (ConstantSwitch lowering)
	{Name: "switch-const-bool", Body: "switch E {\ncase true:\n\tr++\ncase false:\n\tr--\n}\nreturn r"},
	{Name: "switch-const-bool-default", Body: "switch E {\ncase true:\n\tr++\ndefault:\n\tr--\n}\nreturn r"},
	{Name: "switch-const-int-fallthrough", Body: "switch toi(E) {\ncase 1:\n\tr++\n\tfallthrough\ncase 2, 3:\n\tr += 2\ndefault:\n\tr--\n}\nreturn r"},
	{Name: "switch-const-int-nodefault", Body: "switch toi(E) {\ncase 0:\n\treturn 1\ncase 1:\n\treturn 2\n}\nreturn r"},
	{Name: "switch-const-string", Body: "switch tostr(E) {\ncase \"t\":\n\tr++\ncase \"f\":\n\tbreak\n}\nreturn r"},
	{Name: "switch-const-init", Body: "switch t := toi(E); t {\ncase 1:\n\tr += t\n}\nreturn r"},
	{Name: "switch-const-labelled", Body: "L:\n\tswitch E {\n\tcase true:\n\t\tif a {\n\t\t\tbreak L\n\t\t}\n\t\tr++\n\t}\n\treturn r"},
	// switch, non-constant cases (If-chain lowering)
	{Name: "switch-dyn-bool", Body: "switch E {\ncase a:\n\tr++\ncase b:\n\tr--\n}\nreturn r"},
	{Name: "switch-dyn-int-default-fallthrough", Body: "switch toi(E) {\ncase n:\n\tr++\n\tfallthrough\ncase n + 1:\n\tr += 2\ndefault:\n\tr--\n}\nreturn r"},
	{Name: "switch-dyn-case-operand", Body: "switch n {\ncase toi(E):\n\tr++\ncase 2:\n\tr--\n}\nreturn r"},
	{Name: "switch-tagless-case-operand", Body: "switch {\ncase E:\n\tr++\ncase b:\n\tr--\ndefault:\n\tr += 2\n}\nreturn r"},
	// type switch
	{Name: "typeswitch-bind", Body: "switch x := toa(E).(type) {\ncase int:\n\tr += x\ncase string:\n\tr += len(x)\ndefault:\n\t_ = x\n}\nreturn r"},
	{Name: "typeswitch-bind-nodefault-multi", Body: "switch x := toa(E).(type) {\ncase int, string:\n\t_ = x\n\tr++\ncase nil:\n\tr--\n}\nreturn r"},
	{Name: "typeswitch-nobind", Body: "switch toa(E).(type) {\ncase int:\n\tr++\ncase I:\n\tr--\n}\nreturn r"},
	{Name: "typeswitch-conversion", Body: "switch any(E).(type) {\ncase bool:\n\tr++\ndefault:\n\tr--\n}\nreturn r"},
	{Name: "typeswitch-init", Body: "switch t := toi(E); x := v.(type) {\ncase int:\n\tr += x + t\n}\nreturn r"},
	// if
	{Name: "if-cond", Body: "if E {\n\tr++\n} else {\n\tr--\n}\nreturn r"},
	{Name: "if-cond-not", Body: "if !(E) {\n\tr++\n}\nreturn r"},
	{Name: "if-init", Body: "if t := toi(E); t > 0 {\n\tr += t\n} else if t < 0 {\n\tr -= t\n}\nreturn r"},
	// for
	{Name: "for-cond", Body: "for k := 0; k < 2 && E; k++ {\n\tr++\n}\nreturn r"},
	{Name: "for-cond-only", Body: "for E {\n\tr++\n\tif r > 3 {\n\t\tbreak\n\t}\n}\nreturn r"},
	{Name: "for-init", Body: "for k := toi(E); k < 2; k++ {\n\tr++\n}\nreturn r"},
	{Name: "for-post", Body: "for k := 0; k < 2; k += 1 + toi(E) {\n\tif a {\n\t\tcontinue\n\t}\n\tr++\n}\nreturn r"},
	// range
	{Name: "range-slice", Body: "for i, e := range tos(E) {\n\tr += i + e\n}\nreturn r"},
	{Name: "range-int", Body: "for i := range toi(E) {\n\tr += i\n}\nreturn r"},
	{Name: "range-string", Body: "for i, c := range tostr(E) {\n\tr += i + int(c)\n}\nreturn r"},
	{Name: "range-map", Body: "for k, e := range tom(E) {\n\tr += len(k) + e\n}\nreturn r"},
	{Name: "range-chan", Body: "for e := range toch(E) {\n\tr += e\n\tbreak\n}\nreturn r"},
	{Name: "range-array", Body: "for i := range toarr(E) {\n\tr += i\n}\nreturn r"},
	{Name: "range-func", Body: "for e := range toseq(E) {\n\tr += e\n\tif a {\n\t\treturn r\n\t}\n}\nreturn r"},
	// select
	{Name: "select-send-recv", Body: "select {\ncase toch(E) <- toi(E):\n\tr++\ncase x := <-toch(E):\n\tr += x\ndefault:\n\tr--\n}\nreturn r"},
	{Name: "select-recv-ok-blocking", Body: "select {\ncase x, ok := <-toch(E):\n\tif ok {\n\t\tr += x\n\t}\ncase ch <- toi(E):\n}\nreturn r"},
	// return / defer / go / call
	{Name: "return-int", Body: "return toi(E)"},
	{Name: "return-bool", Body: "return E", Sig: "(a, b bool) bool"},
	{Name: "return-two", Body: "return toi(E), E", Sig: "(a, b bool) (int, bool)"},
	{Name: "defer-arg", Body: "defer fi(toi(E))\nr++\nreturn r"},
	{Name: "defer-method-recover", Body: "defer func() { recover() }()\ndefer tot(E).set(toi(E))\nreturn r"},
	{Name: "go-arg", Body: "go fi(toi(E))\nreturn r"},
	{Name: "call-args", Body: "r = fi(toi(E)) + fv(toi(E), toi(E)) + fv(tos(E)...)\nreturn r"},
	{Name: "call-closure-capture", Body: "f := func() int { return toi(E) + r }\nreturn f()"},
	// index / slice
	{Name: "index", Body: "r += s[toi(E)] + m[tostr(E)] + toarr(E)[toi(E)] + int(tostr(E)[toi(E)])\nreturn r"},
	{Name: "slice", Body: "t := s[toi(E):toi(E)+1]\nu := tostr(E)[toi(E):]\nw := toarr(E)\nr += len(t) + len(u) + len(w[:toi(E)])\nreturn r"},
	// composite literals
	{Name: "complit", Body: "t := T{f: toi(E), g: 1}\nl := []int{toi(E), 2}\nk := map[string]int{tostr(E): toi(E)}\np := &T{g: toi(E)}\nar := [2]bool{E, a}\n_ = ar\nr += t.f + l[0] + len(k) + p.g\nreturn r"},
	// assignments
	{Name: "assign-rhs", Body: "x := toi(E)\nvar y int = toi(E)\nx += toi(E)\nx, y = toi(E), x\nr = x + y\nreturn r"},
	{Name: "assign-lhs-index", Body: "s[toi(E)] = 1\nm[tostr(E)] = toi(E)\ns[toi(E)]++\n*top(E) = 2\ntot(E).f = toi(E)\ns[0], s[toi(E)] = toi(E), 3\nreturn r"},
	{Name: "assign-commaok", Body: "x, ok := m[tostr(E)]\ny, ok2 := toa(E).(int)\nz, ok3 := <-toch(E)\nif ok && ok2 && ok3 {\n\tr += x + y + z\n}\nreturn r"},
	{Name: "send-incdec", Body: "toch(E) <- toi(E)\nr++\nreturn r"},
	{Name: "binary-unary", Body: "r += toi(E) + toi(E)*2\nq := !(E) && a\nif q {\n\tr = -r\n}\nreturn r"},
	{Name: "nested-in-loop", Body: "for k := 0; k < 2; k++ {\n\tswitch E {\n\tcase true:\n\t\tcontinue\n\tcase false:\n\t\tr++\n\t}\n\tswitch x := toa(E).(type) {\n\tcase int:\n\t\tr += x\n\t}\n}\nreturn r"},
}

func (s wfHdrSpec) ok() bool {
	return s.Stmt >= 0 && s.Stmt < len(wfHdrStmts) && s.Op >= 0 && s.Op < len(wfHdrOps)
}

func (s wfHdrSpec) source(name string) string {
	st := wfHdrStmts[s.Stmt]
	sig := st.Sig
	if sig == "" {
		sig = wfHdrSig
	}
	body := wfReplaceIdent(st.Body, "E", "("+wfHdrOps[s.Op]+")")
	return fmt.Sprintf("func %s%s {\n\t%s\n}\n", name, sig, strings.ReplaceAll(body, "\n", "\n\t"))
}

// wfReplaceIdent replaces the stand-alone identifier id.
func wfReplaceIdent(s, id, repl string) string {
	var b strings.Builder
	isId := func(c byte) bool {
		return c == '_' || c >= '0' && c <= '9' || c >= 'a' && c <= 'z' || c >= 'A' && c <= 'Z'
	}
	for i := 0; i < len(s); {
		if strings.HasPrefix(s[i:], id) && (i == 0 || !isId(s[i-1])) && (i+len(id) == len(s) || !isId(s[i+len(id)])) {
			b.WriteString(repl)
			i += len(id)
		} else {
			b.WriteByte(s[i])
			i++
		}
	}
	return b.String()
}

func wfHdrSpecs() []wfHdrSpec {
	var out []wfHdrSpec
	for st := range wfHdrStmts {
		for op := range wfHdrOps {
			out = append(out, wfHdrSpec{st, op})
		}
	}
	return out
}
