//go:build verif

package ir_test

// C02 generators: (a) the goto-built CFG family of C14 extended with a local `x` that is read and
// written in every block and whose address escapes in chosen blocks (through a pointer variable
// that is itself lifted, or as a call argument), so that the lifting pass creates split allocs,
// boundary load/store pairs and φ-nodes in arbitrary — also irreducible — loops; (b) a family of
// structured programs: construct × operand shape × enclosing skeleton × language version.
// All generated programs are type-correct; a program that does not parse or type-check is a
// generator defect (NotExhaustive), never a violation.

import (
	"fmt"
	"go/ast"
	"go/parser"
	"go/token"
	"go/types"
	"strings"
	"sync"
	"time"

	"honnef.co/go/tools/go/ir"
)

// ---------------------------------------------------------------------------------------------
// goto family

type wfGotoSpec struct {
	N     int      `json:"n"`
	T     [][2]int `json:"t"`   // per block: target if c(i), else-target; -1 = return
	Esc   []int    `json:"esc"` // per block: 0 nothing, 1 `p = &x`, 2 `sink(&x)`
	Defer bool     `json:"defer"`
}

func (s wfGotoSpec) source(name string) string {
	var b strings.Builder
	targeted := make([]bool, s.N)
	for i := 0; i < s.N; i++ {
		for _, t := range s.T[i] {
			if t >= 0 {
				targeted[t] = true
			}
		}
	}
	fmt.Fprintf(&b, "func %s(c func(int) bool, a int) (r int) {\n", name)
	if s.Defer {
		b.WriteString("\tdefer func() { recover() }()\n")
	}
	b.WriteString("\tx := a\n\ty := a\n\tp := &y\n\tr = x\n")
	for i := 0; i < s.N; i++ {
		if targeted[i] {
			fmt.Fprintf(&b, "L%d:\n", i)
		}
		fmt.Fprintf(&b, "\tx += %d\n", i+1)
		switch s.Esc[i] {
		case 1:
			b.WriteString("\tp = &x\n")
		case 2:
			b.WriteString("\tsink(&x)\n")
		}
		b.WriteString("\t*p += 1\n\tr += x\n")
		stmt := func(t int) string {
			if t < 0 {
				return "return r + *p"
			}
			return fmt.Sprintf("goto L%d", t)
		}
		if s.T[i][0] == s.T[i][1] {
			fmt.Fprintf(&b, "\t%s\n", stmt(s.T[i][0]))
		} else {
			fmt.Fprintf(&b, "\tif c(%d) {\n\t\t%s\n\t}\n\t%s\n", i, stmt(s.T[i][0]), stmt(s.T[i][1]))
		}
	}
	b.WriteString("}\n")
	return b.String()
}

// wfGotoCFGs enumerates all target assignments for n blocks. With ordered=false the two targets of a
// block are taken as an unordered pair (t1 <= t2): swapping them only swaps the successors of the
// block's If.
func wfGotoCFGs(n int, ordered bool) [][][2]int {
	var out [][][2]int
	k := n + 1
	total := 1
	for i := 0; i < n; i++ {
		total *= k * k
	}
next:
	for code := 0; code < total; code++ {
		c := code
		t := make([][2]int, n)
		for i := 0; i < n; i++ {
			t[i][0] = c%k - 1
			c /= k
			t[i][1] = c%k - 1
			c /= k
			if !ordered && t[i][0] > t[i][1] {
				continue next
			}
		}
		out = append(out, t)
	}
	return out
}

// wfEscMasks enumerates escape assignments for n blocks: level 2 = all of {0,1,2}^n; level 1 = at
// most one escaping block, either kind; level 0 = at most one escaping block, kind `p = &x`.
func wfEscMasks(n int, level int) [][]int {
	var out [][]int
	if level >= 2 {
		total := 1
		for i := 0; i < n; i++ {
			total *= 3
		}
		for code := 0; code < total; code++ {
			c := code
			e := make([]int, n)
			for i := 0; i < n; i++ {
				e[i] = c % 3
				c /= 3
			}
			out = append(out, e)
		}
		return out
	}
	out = append(out, make([]int, n))
	for i := 0; i < n; i++ {
		for k := 1; k <= 1+level; k++ {
			e := make([]int, n)
			e[i] = k
			out = append(out, e)
		}
	}
	return out
}

const wfGotoPrelude = "var sink func(*int)\n"

// ---------------------------------------------------------------------------------------------
// structured family

const wfLibSrc = `package lib

type Number interface{ ~int | ~int64 | ~float64 }

func Map[T, U any](s []T, f func(T) U) []U {
	var out []U
	for _, e := range s {
		out = append(out, f(e))
	}
	return out
}

func Sum[T Number](s []T) (t T) {
	for _, e := range s {
		t += e
	}
	return
}

func Conv[D ~[]byte | ~string, S ~[]byte | ~string](s S) D { return D(s) }

func Ptr[T any](t T) *T { return &t }

func First[S ~[]byte | ~string](s S) byte {
	if len(s) == 0 {
		return 0
	}
	return s[0]
}

func Keys[M ~map[K]V, K comparable, V any](m M) []K {
	var out []K
	for k := range m {
		out = append(out, k)
	}
	return out
}

func Apply[T any, P interface {
	*T
	Set(int)
}](n int) T {
	var t T
	P(&t).Set(n)
	return t
}

type Cell struct{ V int }

func (c *Cell) Set(n int) { c.V = n }
func (c Cell) Get() int   { return c.V }

type List[T any] struct {
	items []T
	n     int
}

func (l *List[T]) Push(t T) {
	l.items = append(l.items, t)
	l.n++
}

func (l *List[T]) Len() int { return len(l.items) }

func (l List[T]) Each(yield func(int, T) bool) {
	for i, e := range l.items {
		if !yield(i, e) {
			return
		}
	}
}

type Pair[K comparable, V any] struct {
	Key K
	Val V
}

func (p Pair[K, V]) Get() (K, V) { return p.Key, p.Val }

func MakePair[K comparable, V any](k K, v V) Pair[K, V] { return Pair[K, V]{k, v} }

func Choose[T any](c bool, a, b T) T {
	if c {
		return a
	}
	return b
}
`

const wfStructPrelude = `
var sink func(*int)

type T struct{ f, g int }

func (t T) M() int   { return t.f }
func (t *T) PM(n int) { t.g += n }

type Inner struct{ n int }

func (i *Inner) Inc() int { i.n++; return i.n }
func (i Inner) Val() int  { return i.n }

type Outer struct {
	*Inner
	T
	name string
}

type I interface{ M() int }

type MyInt int

func (m MyInt) M() int { return int(m) }

func seq(yield func(int) bool) {
	for i := 0; i < 3; i++ {
		if !yield(i) {
			return
		}
	}
}

func seq2(yield func(int, string) bool) {
	_ = yield(1, "a") && yield(2, "b")
}

func two() (int, string) { return 1, "x" }

func local[E ~int | ~int64](e E) E { return e + e }
`

type wfConstruct struct {
	Name    string
	MinGo   int    // minor version needed (0 = any)
	Body    string // uses X as an int lvalue, c, a, r, s, str, m, ch, ch2, v
	NeedLib bool
}

var wfConstructs = []wfConstruct{
	{Name: "range-int", MinGo: 22, Body: `for i := range 3 { X += i; if c(i) { continue }; r += X }`},
	{Name: "range-slice", Body: `for i, e := range s { X += e; if c(i) { break }; r += i }`},
	{Name: "range-string", Body: `for i, ch := range str { X += int(ch) + i }
	for i := range str { X += int(str[i]) }`},
	{Name: "range-map", Body: `for k, e := range m { X += len(k) + e }
	for k := range m { delete(m, k) }`},
	{Name: "range-chan", Body: `for e := range ch { X += e; if c(e) { break } }`},
	{Name: "range-array-ptr", Body: `arr := [3]int{1, 2, X}
	for i, e := range &arr { X += e + i }
	for i := range arr { arr[i]++ }
	for range arr { r++ }`},
	{Name: "range-func", MinGo: 23, Body: `for e := range seq { X += e; if c(e) { break }; if c(e + 1) { continue }; if c(e + 2) { return X } }
	for n, t := range seq2 { X += n + len(t) }`},
	{Name: "range-func-nested", MinGo: 23, Body: `outer:
	for e := range seq {
		for n, t := range seq2 {
			if c(n) { continue outer }
			if c(e) { break outer }
			if c(len(t)) { r = X; return }
			defer func() { X += e }()
			X += n
		}
	}`},
	{Name: "defer-recover", Body: `defer func() {
		if e := recover(); e != nil { r = X }
	}()
	if c(0) { panic("p") }
	r = X`},
	{Name: "defer-loop", Body: `for i := 0; i < 2; i++ {
		defer func(n int) { r += n + X }(i)
		defer t0.PM(i)
	}
	defer close(ch)`},
	{Name: "closure-loopvar", Body: `var fs []func() int
	for i := 0; i < 3; i++ {
		fs = append(fs, func() int { X++; return i + X })
	}
	for _, f := range fs { r += f() }
	for i := 0; i < 2; i++ { func() { r += i }() }`},
	{Name: "closure-nested", Body: `add := func(n int) func() int {
		return func() int { X += n; return X }
	}
	r += add(1)() + add(a)()`},
	{Name: "generics-lib", NeedLib: true, Body: `r += lib.Sum(lib.Map(s, func(e int) int { return e + X }))
	var l lib.List[int]
	l.Push(X)
	r += l.Len()
	k, val := lib.MakePair("k", X).Get()
	r += len(k) + val
	r += int(lib.First(str)) + int(lib.First([]byte(str)))
	r += len(lib.Conv[[]byte](str)) + len(lib.Keys(m))
	r += *lib.Ptr(X) + lib.Apply[lib.Cell](X).Get()
	r += lib.Choose(c(0), X, a)
	f := lib.Sum[float64]
	r += int(f(nil))`},
	{Name: "generics-lib-rangefunc", NeedLib: true, MinGo: 23, Body: `var l lib.List[string]
	l.Push(str)
	for i, e := range l.Each { X += i + len(e); if c(i) { break } }`},
	{Name: "generics-local", Body: `r += local(X) + int(local(int64(X))) + int(local(MyInt(X)))`},
	{Name: "typeswitch", Body: `switch t := v.(type) {
	case int: X += t
	case string, bool: _ = t; r++
	case nil: r--
	case I: r += t.M()
	case interface{ N() }: t.N()
	default: _ = t; X--
	}
	switch v.(type) {
	case error: r++
	}`},
	{Name: "select", Body: `select {
	case e := <-ch: X += e
	case ch <- X: r++
	case e, ok := <-ch2: if ok { X += e }
	default: r--
	}
	select {
	case <-ch:
	case ch2 <- 1: X++
	}`},
	{Name: "labelled", Body: `outer:
	for i := 0; i < 3; i++ {
		for j := 0; j < 3; j++ {
			if c(j) { continue outer }
			if c(i) { break outer }
			X += i * j
		}
	}`},
	{Name: "switch", Body: `switch X {
	case 1: r++; fallthrough
	case 2, 3: r += 2
	default: r--
	}
	switch {
	case c(0): X++
	case c(1), X > 3: X--
	}
	switch n := X; str {
	case "a": r += n
	case "b": break
	}`},
	{Name: "shortcircuit", Body: `if c(0) && (c(1) || X > 2) { r++ }
	b := c(0) || c(1) && c(2)
	if !b { X++ }
	for c(3) && X < 9 { X++ }`},
	{Name: "commaok", Body: `e, ok := m["k"]
	if ok { X += e }
	n, ok2 := v.(int)
	if ok2 { X += n }
	e2, ok3 := <-ch
	if ok3 { X += e2 }
	one, two := two()
	X += one + len(two)
	m["z"] = X
	m["z"]++`},
	{Name: "convert", Body: `bs := []byte(str)
	if len(bs) > 0 { X += int(bs[0]) }
	rs := []rune(str)
	str2 := string(rs) + string(bs) + string(rune(X))
	arr := [3]int{1, 2, 3}
	sl := arr[:]
	X += sl[1] + len(str2)
	p3 := (*[3]int)(sl)
	X += p3[0]
	f := float64(X) * 1.5
	X += int(f) + int(uint8(X)) + int(MyInt(X))
	var i I = MyInt(X)
	v = i
	r += i.M() + len(str[1:]) + len(sl[1:2:3]) + len(p3[:2])`},
	{Name: "convert-array", MinGo: 20, Body: `sl := []int{1, 2, X}
	a3 := [3]int(sl)
	X += a3[2]`},
	{Name: "methods", Body: `f := T.M
	g := t0.M
	h := I.M
	pm := (*T).PM
	pm(&t0, X)
	bm := t0.PM
	bm(2)
	var i I = t0
	hv := i.M
	o := Outer{Inner: &Inner{}, T: t0}
	inc := o.Inc
	val := Outer.Val
	r += f(t0) + g() + h(t0) + hv() + inc() + val(o) + o.M() + o.Val()
	var oi interface{ Inc() int } = o
	r += oi.Inc()`},
	{Name: "go-defer", Body: `go func(n int) { ch <- n }(X)
	go t0.PM(X)
	defer t0.M()
	var i I = t0
	defer i.M()
	go i.M()
	defer println(X, str)`},
	{Name: "builtins", MinGo: 21, Body: `X += min(a, X, 3) + max(a, 1)
	s = append(s, X, a)
	s = append(s, s...)
	bs := append([]byte(nil), str...)
	X += copy(s, s[1:]) + len(bs) + cap(s)
	clear(m)
	clear(s)
	cplx := complex(float64(X), 1)
	X += int(real(cplx)) + int(imag(cplx))
	np := new(int)
	*np = X
	ms := make([]int, X, 10)
	mm := make(map[int]string, X)
	mc := make(chan string, X)
	_, _, _ = ms, mm, mc`},
	{Name: "composite", Body: `ts := []T{{1, X}, {f: a}}
	tp := &T{g: X}
	mp := map[string]T{"a": {X, 1}}
	ar := [...]int{2: X, 0: a}
	nested := struct{ a [2]T; p *T }{p: tp}
	nested.a[1].f = X
	X += ts[0].g + tp.g + mp["a"].f + ar[2] + nested.a[1].f + nested.p.g`},
	{Name: "split-alloc-in-branch", Body: `y := a
	p := &y
	if c(0) {
		z := X
		r += z
		p = &z
		r += z
	}
	*p += 1
	for c(1) {
		w := X
		r += w
		if c(2) { p = &w } else { w++ }
		r += w + *p
	}
	if c(3) {
		u := X
		r += u
		if c(4) { sink(&u) }
		r += u
	}`},
	{Name: "trivial-phis", Body: `inv := a
	if c(0) { inv = a } else { inv = a }
	r += inv
	w := X
	for c(1) {
		w = w
		r += w
		if c(2) { continue }
		w = w
	}
	r += w`},
	{Name: "goto-loop", Body: `i := 0
	if c(0) { goto second }
first:
	X += i
second:
	i++
	if c(1) { sink(&i) }
	if c(2) { goto first }
	r += i`},
}

type wfShape struct {
	Name, Decl, X string
}

var wfShapes = []wfShape{
	{"local", "x := a", "x"},
	{"escapes-on-some-paths", "x := a\n\tif c(5) { sink(&x) }", "x"},
	{"struct-field", "st := T{f: a}", "st.f"},
	{"pointer", "xp := new(int)\n\t*xp = a", "*xp"},
}

type wfSkeleton struct {
	Name, Pre, Post string
}

var wfSkeletons = []wfSkeleton{
	{"plain", "", ""},
	{"in-for", "for k := 0; k < 2; k++ {\n", "\n\t}"},
	{"in-if", "if c(7) {\n", "\n\t} else {\n\t\tX++\n\t}"},
	{"in-labelled-loop", "skel:\n\tfor {\n", "\n\t\tif c(8) { break skel }\n\t\tif c(9) { continue skel }\n\t\tX++\n\t\tbreak\n\t}"},
}

type wfStructSpec struct {
	Construct int `json:"construct"`
	Shape     int `json:"shape"`
	Skeleton  int `json:"skeleton"`
	GoMinor   int `json:"go_minor"` // language version 1.GoMinor
}

func (s wfStructSpec) ok() bool {
	return s.Construct >= 0 && s.Construct < len(wfConstructs) && s.Shape >= 0 && s.Shape < len(wfShapes) &&
		s.Skeleton >= 0 && s.Skeleton < len(wfSkeletons) && wfConstructs[s.Construct].MinGo <= s.GoMinor
}

func (s wfStructSpec) source(name string) string {
	cst, sh, sk := wfConstructs[s.Construct], wfShapes[s.Shape], wfSkeletons[s.Skeleton]
	body := sk.Pre + "\t" + cst.Body + sk.Post
	body = wfReplaceX(body, sh.X)
	return fmt.Sprintf("func %s(c func(int) bool, a int, s []int, str string, m map[string]int, ch, ch2 chan int, v any) (r int) {\n\tt0 := T{a, a}\n\t_ = t0\n\t%s\n\t%s\n\tr += %s\n\treturn r\n}\n",
		name, sh.Decl, body, sh.X)
}

// wfReplaceX replaces the stand-alone identifier X.
func wfReplaceX(s, repl string) string {
	var b strings.Builder
	isId := func(c byte) bool {
		return c == '_' || c >= '0' && c <= '9' || c >= 'a' && c <= 'z' || c >= 'A' && c <= 'Z'
	}
	for i := 0; i < len(s); i++ {
		if s[i] == 'X' && (i == 0 || !isId(s[i-1])) && (i+1 == len(s) || !isId(s[i+1])) {
			b.WriteString(repl)
		} else {
			b.WriteByte(s[i])
		}
	}
	return b.String()
}

func wfStructSpecs(goMinor int) []wfStructSpec {
	var out []wfStructSpec
	for c := range wfConstructs {
		for sh := range wfShapes {
			for sk := range wfSkeletons {
				s := wfStructSpec{c, sh, sk, goMinor}
				if s.ok() {
					out = append(out, s)
				}
			}
		}
	}
	return out
}

// ---------------------------------------------------------------------------------------------
// building a generated multi-package program

type wfMapImporter map[string]*types.Package

func (m wfMapImporter) Import(path string) (*types.Package, error) {
	if p, ok := m[path]; ok {
		return p, nil
	}
	return nil, fmt.Errorf("generated programs import only generated packages, not %q", path)
}

type wfGenPkg struct {
	Path string
	Src  string
}

type wfBuiltPkg struct {
	Path string
	Pkg  *ir.Package
}

// wfBuildProgram type-checks the packages in order (later ones may import earlier ones) and
// builds them with Program.Build, so that the BuildSerially bit selects serial or concurrent
// building of the packages. genErr != "" means the generator produced an ill-formed program.
func wfBuildProgram(pkgs []wfGenPkg, goMinor int, mode ir.BuilderMode) (built []wfBuiltPkg, prog *ir.Program, genErr string, buildPanic string) {
	fset := token.NewFileSet()
	imp := wfMapImporter{}
	prog = ir.NewProgram(fset, mode)
	// what internal/passes/buildir does with ctrlflow's facts: calls to these functions cannot return
	prog.SetNoReturn(func(f *types.Func) bool { return strings.HasPrefix(f.Name(), "noret") })
	type tc struct {
		pkg   *types.Package
		files []*ast.File
		info  *types.Info
	}
	var checked []tc
	for _, gp := range pkgs {
		f, err := parser.ParseFile(fset, gp.Path+".go", gp.Src, parser.SkipObjectResolution)
		if err != nil {
			return nil, nil, fmt.Sprintf("parse %s: %v", gp.Path, err), ""
		}
		info := &types.Info{
			Types:        make(map[ast.Expr]types.TypeAndValue),
			Defs:         make(map[*ast.Ident]types.Object),
			Uses:         make(map[*ast.Ident]types.Object),
			Implicits:    make(map[ast.Node]types.Object),
			Scopes:       make(map[ast.Node]*types.Scope),
			Selections:   make(map[*ast.SelectorExpr]*types.Selection),
			Instances:    make(map[*ast.Ident]types.Instance),
			FileVersions: make(map[*ast.File]string),
		}
		conf := &types.Config{Importer: imp, GoVersion: fmt.Sprintf("go1.%d", goMinor)}
		name := gp.Path
		if i := strings.LastIndex(name, "/"); i >= 0 {
			name = name[i+1:]
		}
		tp := types.NewPackage(gp.Path, name)
		if err := types.NewChecker(conf, fset, tp, info).Files([]*ast.File{f}); err != nil {
			return nil, nil, fmt.Sprintf("type-check %s: %v", gp.Path, err), ""
		}
		imp[gp.Path] = tp
		checked = append(checked, tc{tp, []*ast.File{f}, info})
	}
	for i, c := range checked {
		built = append(built, wfBuiltPkg{pkgs[i].Path, prog.CreatePackage(c.pkg, c.files, c.info, true)})
	}
	if mode&ir.BuildSerially != 0 {
		func() {
			defer func() {
				if e := recover(); e != nil {
					buildPanic = fmt.Sprint(e)
				}
			}()
			prog.Build()
		}()
	} else {
		// Concurrent building is what Program.Build does without BuildSerially: one goroutine per
		// package calling Package.Build. It is spelled out here so that a builder panic (ill-formed
		// IR can make later passes fall over) is recovered and reported as a violation instead of
		// killing the harness. Should a panicking package leave another one waiting for a shared
		// function, the wait is abandoned after a grace period.
		var mu sync.Mutex
		done := make(chan struct{})
		var wg sync.WaitGroup
		for _, bp := range built {
			wg.Add(1)
			go func(p *ir.Package) {
				defer wg.Done()
				defer func() {
					if e := recover(); e != nil {
						mu.Lock()
						if buildPanic == "" {
							buildPanic = fmt.Sprint(e)
						}
						mu.Unlock()
					}
				}()
				p.Build()
			}(bp.Pkg)
		}
		go func() { wg.Wait(); close(done) }()
		select {
		case <-done:
		case <-time.After(5 * time.Minute):
			mu.Lock()
			if buildPanic == "" {
				buildPanic = "concurrent build did not finish within 5 minutes"
			} else {
				buildPanic += " (and another package never finished building)"
			}
			mu.Unlock()
		}
		mu.Lock()
		defer mu.Unlock()
		return built, prog, "", buildPanic
	}
	return built, prog, "", buildPanic
}
