//go:build verif

package ir_test

// C02 driver: enumerates generated programs × 16 builder modes and the fixed corpora (std, the
// repository, every */testdata/go1.N module) × 4 (quick) or 16 (thorough) builder modes, and
// runs the independent checker of wf_checker_test.go over every function body of every program.

import (
	"context"
	"encoding/json"
	"fmt"
	"go/types"
	"os"
	"path/filepath"
	"runtime"
	"sort"
	"strings"
	"sync"
	"sync/atomic"
	"testing"
	"time"

	"golang.org/x/tools/go/packages"

	"honnef.co/go/tools/go/ir"
	"honnef.co/go/tools/go/ir/irutil"
	"honnef.co/go/tools/internal/verifx/vx"
)

const wfRule = "generated: (a) every goto-built CFG with n labelled blocks (each block: if c(i) goto/return t1 else goto/return t2) whose local x is read and written in every block, " +
	"also through a pointer p, x escape assignment per block (none | p = &x | sink(&x)) x {defer+recover}: quick n<=2 complete, n=3 with unordered target pairs and at most one `p = &x`; " +
	"thorough n<=3 complete (defer variants of n=3 with at most one escaping block), n=4 with unordered target pairs and (no escape | p = &x in the third block); " +
	"(b) every structured program construct (30: range over int/slice/string/map/chan/array/func, nested range-over-func with defer, defer/recover with named results, closures over loop " +
	"variables, generics across packages, type switch, select, labelled break/continue, switch/fallthrough, short-circuit, comma-ok forms, conversions, method values/wrappers/thunks, go/defer, " +
	"builtins, composite literals, split allocs in branches, trivial phis, goto loops) x operand shape (4) x skeleton (4) x language version (1.21, 1.26); (d) the header-expression family: 49 statements with a header/operand expression (switch tag with constant and non-constant cases, with/without default, fallthrough, init, label; tagless switch cases; " +
	"type switch tag with/without binding; if cond/init; for init/cond/post; range over slice/int/string/map/chan/array/func; select send/recv operands; return/defer/go/call arguments; index and slice operands; " +
	"composite literal elements; assignment right-hand sides and indexed/dereferenced left-hand sides; comma-ok forms; send) x 6 operands (a | a && b | a || b | fb(a && b) | a call that cannot return under SetNoReturn | " +
	"a function literal call that may panic), one program per pair, a builder panic being a violation of that pair; (c) three small families, complete over their dimensions: dead/overwritten stores " +
	"(2 initialisations x chains of 1..3 ifs with 5 conditional-store forms each x 4 endings), locals that become splittable only in lift round >= 2 in or behind a join block headed by 0..3 phis " +
	"(4 access paths x 4 x 2), go1.22 three-clause loops with 1..3 loop variables, 0..n of them captured, 3 exits, 3 places where a local escapes; every generated program is built as a " +
	"multi-package program with Program.Build under all 16 combinations of {NaiveForm, GlobalDebug, InstantiateGenerics, BuildSerially}. corpora: every package of `go list std`, of " +
	"honnef.co/go/tools/... (with test variants) and of the */testdata/go1.N modules (quick: every 8th module) that type-checks, under 4 (quick: naive/lifted x debug) or 16 (thorough) " +
	"combinations. One evaluation = one function body (declared, anonymous, wrapper, thunk, bound method, generic instance, init) in one mode, checked by an independent well-formedness " +
	"checker. Non-trivial = function with >= 2 blocks and (>= 1 phi or >= 1 split alloc)."

var wfModes16 = func() []ir.BuilderMode {
	var out []ir.BuilderMode
	for m := 0; m < 16; m++ {
		var mode ir.BuilderMode
		if m&1 != 0 {
			mode |= ir.NaiveForm
		}
		if m&2 != 0 {
			mode |= ir.GlobalDebug
		}
		if m&4 != 0 {
			mode |= ir.InstantiateGenerics
		}
		if m&8 != 0 {
			mode |= ir.BuildSerially
		}
		out = append(out, mode)
	}
	return out
}()

// the quick tier's corpus modes; lifted+debug (what staticcheck itself builds) first, so that it is
// covered even when the budget runs out early
var wfModes4 = []ir.BuilderMode{ir.GlobalDebug, ir.NaiveForm, 0, ir.NaiveForm | ir.GlobalDebug}

func wfModeName(m ir.BuilderMode) string {
	s := m.String()
	if s == "" {
		return "-"
	}
	return s
}

type wfCase struct {
	Kind   string        `json:"kind"` // "corpus" | "goto" | "struct" | "mini" | "hdr"
	Corpus string        `json:"corpus,omitempty"`
	Pkg    string        `json:"pkg,omitempty"`
	Fn     string        `json:"fn,omitempty"`
	Mode   int           `json:"mode"`
	Goto   *wfGotoSpec   `json:"goto,omitempty"`
	Struct *wfStructSpec `json:"struct,omitempty"`
	Mini   *wfMiniSpec   `json:"mini,omitempty"`
	Hdr    *wfHdrSpec    `json:"hdr,omitempty"`
	Rule   string        `json:"rule,omitempty"`
}

const wfMaxPerRule = 12

type wfFound struct {
	key  string
	msg  string
	c    wfCase
	mode ir.BuilderMode
}

type wfRun struct {
	res *vx.Result

	mu         sync.Mutex
	found      map[string]wfFound
	perRule    map[string]int
	keysOfRule map[string][]string
	unassert   map[string]int
	samples    int
	harness    int
	functions  atomic.Int64
	instrs     atomic.Int64
	nontriv    atomic.Int64

	// hot counters (flushed into the result by finish)
	cBlocks, cPhis, cSplit, cSplitFns, cSkipped, cUnreach, cCross, cRecover, cNoBody atomic.Int64

	phaseEnd time.Time // deadline of the current phase (zero: none)
}

// expired: the run's budget or the current phase's share of it is used up.
func (r *wfRun) expired() bool {
	return r.res.Expired() || (!r.phaseEnd.IsZero() && time.Now().After(r.phaseEnd))
}

func newWfRun(res *vx.Result) *wfRun {
	return &wfRun{res: res, found: map[string]wfFound{}, perRule: map[string]int{}, keysOfRule: map[string][]string{}, unassert: map[string]int{}}
}

func wfKeyPart(s string) string {
	return strings.NewReplacer(" ", "_", "\t", "_", "\n", "_").Replace(s)
}

// checkOne runs the checker on fn and records the outcome. mk builds the replay case.
func (r *wfRun) checkOne(fn *ir.Function, mode ir.BuilderMode, keyPrefix string, c wfCase, extra string) {
	if len(fn.Blocks) == 0 {
		r.cNoBody.Add(1)
		return
	}
	var vs []wfViolation
	var st wfStats
	if msg := vx.Catch(func() { vs, st = wfCheckFunction(fn) }); msg != "" {
		// the checker itself must not fall over; report as a harness defect, not as a violation
		r.mu.Lock()
		r.harness++
		n := r.harness
		r.mu.Unlock()
		if n <= 5 {
			r.res.Note("checker panicked on %s (mode %s): %s", fn.String(), wfModeName(mode), msg)
		}
		r.res.NotExhaustive("checker panic")
		return
	}
	r.functions.Add(1)
	r.instrs.Add(int64(st.Instrs))
	if st.Blocks >= 2 && (st.Phis > 0 || st.SplitAllocs > 0) {
		r.nontriv.Add(1)
	}
	if st.DomMismatch != "" {
		r.res.Note("the two dominance algorithms of the checker disagree on %s: %s", fn.String(), st.DomMismatch)
		r.res.NotExhaustive("checker self-check failed")
	}
	r.cBlocks.Add(int64(st.Blocks))
	r.cPhis.Add(int64(st.Phis))
	if st.SplitAllocs > 0 {
		r.cSplit.Add(int64(st.SplitAllocs))
		r.cSplitFns.Add(1)
	}
	r.cSkipped.Add(int64(st.Skipped))
	r.cUnreach.Add(int64(st.Unreachable))
	if st.DomSelfChecked {
		r.cCross.Add(1)
	}
	if fn.Recover != nil {
		r.cRecover.Add(1)
	}
	if len(st.Unasserted) > 0 {
		r.mu.Lock()
		for k, n := range st.Unasserted {
			r.unassert[k] += n
		}
		r.mu.Unlock()
	}
	if len(vs) == 0 {
		return
	}
	dump := ""
	for _, v := range vs {
		key := keyPrefix + ":" + v.Rule
		cc := c
		cc.Rule = v.Rule
		cc.Mode = int(mode)
		r.mu.Lock()
		r.perRule[v.Rule]++
		prev, dup := r.found[key]
		keep := false
		switch {
		case dup:
			keep = int(mode) < int(prev.mode) // the smallest mode in which the case fails is reported
		case len(r.keysOfRule[v.Rule]) < wfMaxPerRule:
			keep = true
		default:
			// the wfMaxPerRule smallest keys of each rule are kept (deterministic, and one frequent
			// rule cannot crowd out the others)
			ks := r.keysOfRule[v.Rule]
			max := 0
			for j := range ks {
				if ks[j] > ks[max] {
					max = j
				}
			}
			if key < ks[max] {
				delete(r.found, ks[max])
				r.keysOfRule[v.Rule] = append(ks[:max], ks[max+1:]...)
				keep = true
			}
		}
		if keep {
			if !dup {
				r.keysOfRule[v.Rule] = append(r.keysOfRule[v.Rule], key)
			}
			if dump == "" {
				dump = wfDump(fn, 6000)
			}
			r.found[key] = wfFound{key: key, mode: mode, c: cc,
				msg: fmt.Sprintf("[%s] %s\nfunction %s, builder mode %s (%d)%s\n%s", v.Rule, v.Msg, fn.String(), wfModeName(mode), int(mode), extra, dump)}
		}
		r.mu.Unlock()
	}
}

func (r *wfRun) finish() {
	res := r.res
	res.Eval(r.functions.Load())
	res.NontrivialN(r.nontriv.Load())
	res.States = r.functions.Load()
	res.Transitions = r.instrs.Load()
	res.Validated = r.functions.Load()
	for _, c := range []struct {
		name string
		v    *atomic.Int64
	}{{"blocks", &r.cBlocks}, {"phis", &r.cPhis}, {"split_allocs", &r.cSplit}, {"functions_with_split_alloc", &r.cSplitFns},
		{"typing_rules_skipped_for_type_parameters", &r.cSkipped}, {"unreachable_blocks", &r.cUnreach},
		{"functions_with_dominance_cross_checked", &r.cCross}, {"functions_with_recover_block", &r.cRecover},
		{"functions_without_body_external", &r.cNoBody}} {
		if n := c.v.Load(); n > 0 {
			res.Count(c.name, n)
		}
	}
	var keys []string
	for k := range r.found {
		keys = append(keys, k)
	}
	sort.Strings(keys)
	for _, k := range keys {
		f := r.found[k]
		res.Violate(f.key, f.msg, f.c)
	}
	for _, k := range wfSortedKeys(r.perRule) {
		res.Count("violations_of_"+k, int64(r.perRule[k]))
	}
	for _, k := range wfSortedKeys(r.unassert) {
		res.Unassert(fmt.Sprintf("%s: %d occurrences (enumerated, not asserted: the instruction's documentation does not state the rule)", k, r.unassert[k]))
	}
}

// ---------------------------------------------------------------------------------------------
// function enumeration

// wfAllFunctions returns every function of prog that has or may get a body: members and methods of
// the given packages, everything irutil.AllFunctions finds, closed under AnonFuncs and under
// *Function operands (wrappers, thunks, bound methods, instances). Sorted by name for determinism.
func wfAllFunctions(prog *ir.Program, pkgs []*ir.Package) (out []*ir.Function, external int, panicMsg string) {
	seen := map[*ir.Function]bool{}
	var add func(fn *ir.Function)
	add = func(fn *ir.Function) {
		if fn == nil || seen[fn] {
			return
		}
		seen[fn] = true
		for _, a := range fn.AnonFuncs {
			add(a)
		}
		var buf [10]*ir.Value
		for _, b := range fn.Blocks {
			if b == nil {
				continue
			}
			for _, instr := range b.Instrs {
				if instr == nil {
					continue
				}
				for _, op := range instr.Operands(buf[:0]) {
					if op == nil {
						continue
					}
					if f, ok := (*op).(*ir.Function); ok {
						add(f)
					}
				}
			}
		}
	}
	panicMsg = vx.Catch(func() {
		for _, p := range pkgs {
			if p == nil {
				continue
			}
			for _, f := range p.Functions {
				add(f)
			}
			var names []string
			for name := range p.Members {
				names = append(names, name)
			}
			sort.Strings(names)
			for _, name := range names {
				switch m := p.Members[name].(type) {
				case *ir.Function:
					add(m)
				case *ir.Type:
					named, ok := m.Type().(*types.Named)
					if !ok || named.TypeParams().Len() > 0 || types.IsInterface(named) {
						continue
					}
					for _, T := range []types.Type{named, types.NewPointer(named)} {
						mset := prog.MethodSets.MethodSet(T)
						for i := 0; i < mset.Len(); i++ {
							add(prog.MethodValue(mset.At(i))) // builds wrappers on demand
						}
					}
				}
			}
		}
		for f := range irutil.AllFunctions(prog) {
			add(f)
		}
	})
	// only functions with a body are checked; the others (members of dependency packages loaded from
	// export data) are merely counted by the caller
	type named struct {
		fn   *ir.Function
		name string
	}
	var ns []named
	for f := range seen {
		if len(f.Blocks) == 0 {
			external++
			continue
		}
		ns = append(ns, named{f, f.String()})
	}
	sort.Slice(ns, func(i, j int) bool {
		a, b := ns[i], ns[j]
		if a.name != b.name {
			return a.name < b.name
		}
		if a.fn.Pos() != b.fn.Pos() {
			return a.fn.Pos() < b.fn.Pos()
		}
		return a.fn.Synthetic < b.fn.Synthetic
	})
	for _, n := range ns {
		out = append(out, n.fn)
	}
	return out, external, panicMsg
}

func wfPkgOf(fn *ir.Function) string {
	for f := fn; f != nil; f = f.Parent() {
		if f.Pkg != nil && f.Pkg.Pkg != nil {
			return f.Pkg.Pkg.Path()
		}
		if o := f.Object(); o != nil && o.Pkg() != nil {
			return o.Pkg().Path()
		}
	}
	return "(shared)"
}

// parallelCheck runs f over fns with GOMAXPROCS workers.
func wfParallel(n int, f func(i int)) {
	workers := runtime.GOMAXPROCS(0)
	if workers > n {
		workers = n
	}
	var wg sync.WaitGroup
	var next atomic.Int64
	for w := 0; w < workers; w++ {
		wg.Add(1)
		go func() {
			defer wg.Done()
			for {
				i := int(next.Add(1)) - 1
				if i >= n {
					return
				}
				f(i)
			}
		}()
	}
	wg.Wait()
}

// ---------------------------------------------------------------------------------------------
// generated programs

type wfGotoBatch struct {
	specs []wfGotoSpec
}

func (r *wfRun) gotoBatch(specs []wfGotoSpec, mode ir.BuilderMode) {
	// two packages per program so that Program.Build has something to build concurrently
	half := (len(specs) + 1) / 2
	var pkgs []wfGenPkg
	name := func(i int) string { return fmt.Sprintf("f%d", i) }
	for pi, part := range [][]wfGotoSpec{specs[:half], specs[half:]} {
		if len(part) == 0 {
			continue
		}
		var src strings.Builder
		fmt.Fprintf(&src, "package g%d\n%s", pi, wfGotoPrelude)
		for i, s := range part {
			src.WriteString(s.source(name(pi*half + i)))
		}
		pkgs = append(pkgs, wfGenPkg{fmt.Sprintf("gen/g%d", pi), src.String()})
	}
	built, prog, genErr, buildPanic := wfBuildProgram(pkgs, 26, mode)
	if genErr != "" {
		r.res.Note("generator defect (goto family): %s", genErr)
		r.res.NotExhaustive("a generated program did not type-check")
		return
	}
	if buildPanic != "" {
		js, _ := json.Marshal(specs[0])
		r.mu.Lock()
		key := fmt.Sprintf("goto:batch-from:%s:build.panic", js)
		r.found[key] = wfFound{key: key, mode: mode, c: wfCase{Kind: "goto", Goto: &specs[0], Mode: int(mode), Rule: "build.panic"},
			msg: fmt.Sprintf("[build.panic] the builder panicked in mode %s on a batch of goto programs starting at %s: %s", wfModeName(mode), js, buildPanic)}
		r.mu.Unlock()
		return
	}
	_ = prog
	for i, s := range specs {
		pi := 0
		if i >= half {
			pi = 1
		}
		fn := built[pi].Pkg.Func(name(i))
		if fn == nil {
			r.res.Note("generated function %s missing", name(i))
			r.res.NotExhaustive("generated function missing")
			continue
		}
		js, _ := json.Marshal(s)
		spec := s
		fns := append([]*ir.Function{fn}, fn.AnonFuncs...)
		for k, g := range fns {
			r.checkOne(g, mode, fmt.Sprintf("goto:%s:fn%d", js, k), wfCase{Kind: "goto", Goto: &spec},
				"\nsource:\n"+s.source("f"))
		}
	}
	// the synthetic init functions of the generated packages
	for _, bp := range built {
		if init := bp.Pkg.Func("init"); init != nil {
			r.checkOne(init, mode, "goto:init:"+bp.Path, wfCase{Kind: "goto", Goto: &specs[0]}, "")
		}
	}
	r.res.Count("generated_goto_function_builds", int64(len(specs)))
}

// miniBatch builds the programs of the small families (wf_gen2_test.go) as two packages of one
// program and checks every function.
func (r *wfRun) miniBatch(specs []wfMiniSpec, mode ir.BuilderMode) {
	half := (len(specs) + 1) / 2
	var pkgs []wfGenPkg
	name := func(i int) string { return fmt.Sprintf("m%d", i) }
	for pi, part := range [][]wfMiniSpec{specs[:half], specs[half:]} {
		if len(part) == 0 {
			continue
		}
		var src strings.Builder
		fmt.Fprintf(&src, "package k%d\n%s", pi, wfMiniPrelude)
		for i, s := range part {
			src.WriteString(s.source(name(pi*half + i)))
		}
		pkgs = append(pkgs, wfGenPkg{fmt.Sprintf("gen/k%d", pi), src.String()})
	}
	built, _, genErr, buildPanic := wfBuildProgram(pkgs, 26, mode)
	if genErr != "" {
		r.res.Note("generator defect (mini families): %s", genErr)
		r.res.NotExhaustive("a generated program did not type-check")
		return
	}
	if buildPanic != "" {
		js, _ := json.Marshal(specs[0])
		r.mu.Lock()
		key := fmt.Sprintf("mini:batch-from:%s:build.panic", js)
		r.found[key] = wfFound{key: key, mode: mode, c: wfCase{Kind: "mini", Mini: &specs[0], Mode: int(mode), Rule: "build.panic"},
			msg: fmt.Sprintf("[build.panic] the builder panicked in mode %s on a batch of mini programs starting at %s: %s", wfModeName(mode), js, buildPanic)}
		r.mu.Unlock()
		return
	}
	for i, s := range specs {
		pi := 0
		if i >= half {
			pi = 1
		}
		fn := built[pi].Pkg.Func(name(i))
		if fn == nil {
			r.res.Note("generated function %s missing", name(i))
			r.res.NotExhaustive("generated function missing")
			continue
		}
		js, _ := json.Marshal(s)
		spec := s
		var all []*ir.Function
		var walk func(f *ir.Function)
		walk = func(f *ir.Function) {
			all = append(all, f)
			for _, a := range f.AnonFuncs {
				walk(a)
			}
		}
		walk(fn)
		for k, g := range all {
			r.checkOne(g, mode, fmt.Sprintf("mini:%s:fn%d", js, k), wfCase{Kind: "mini", Mini: &spec}, "\nsource:\n"+s.source("f"))
		}
	}
	r.res.Count("generated_mini_function_builds", int64(len(specs)))
}

// hdrProgram builds one program of the header-expression family (wf_gen3_test.go) and checks its
// function (and the function literals inside it). A builder panic is a violation of that program.
func (r *wfRun) hdrProgram(spec wfHdrSpec, mode ir.BuilderMode, withPrelude bool) {
	src := "package h\n" + wfHdrPrelude + spec.source("f")
	pkgs := []wfGenPkg{{"gen/h", src}, {"gen/h2", "package h2\n\nfunc Z(a, b bool) bool { return a && b }\n"}}
	js, _ := json.Marshal(spec)
	desc := fmt.Sprintf("\nstatement %s, operand %s; source:\n%s", wfHdrStmts[spec.Stmt].Name, wfHdrOps[spec.Op], spec.source("f"))
	built, _, genErr, buildPanic := wfBuildProgram(pkgs, 26, mode)
	if genErr != "" {
		r.res.Note("generator defect (header family %s): %s", js, genErr)
		r.res.NotExhaustive("a generated program did not type-check")
		return
	}
	sp := spec
	if buildPanic != "" {
		r.functions.Add(1) // the case was evaluated: the builder fell over
		r.mu.Lock()
		r.perRule["build.panic"]++
		key := fmt.Sprintf("hdr:%s:fn0:build.panic", js)
		if prev, dup := r.found[key]; !dup || int(mode) < int(prev.mode) {
			r.found[key] = wfFound{key: key, mode: mode, c: wfCase{Kind: "hdr", Hdr: &sp, Mode: int(mode), Rule: "build.panic"},
				msg: fmt.Sprintf("[build.panic] the builder panicked in mode %s (%d): %s%s", wfModeName(mode), int(mode), buildPanic, desc)}
		}
		r.mu.Unlock()
		return
	}
	fn := built[0].Pkg.Func("f")
	if fn == nil {
		r.res.NotExhaustive("generated function missing")
		return
	}
	var all []*ir.Function
	var walk func(f *ir.Function)
	walk = func(f *ir.Function) {
		all = append(all, f)
		for _, a := range f.AnonFuncs {
			walk(a)
		}
	}
	walk(fn)
	for k, g := range all {
		r.checkOne(g, mode, fmt.Sprintf("hdr:%s:fn%d", js, k), wfCase{Kind: "hdr", Hdr: &sp}, desc)
	}
	if withPrelude {
		for _, bp := range built {
			for _, m := range bp.Pkg.Functions {
				if m != fn {
					r.checkOne(m, mode, fmt.Sprintf("hdr:prelude:%s", wfKeyPart(m.String())), wfCase{Kind: "hdr", Hdr: &sp}, "")
				}
			}
		}
	}
	r.res.Count("generated_header_function_builds", 1)
}

// wfGotoSpecs: the bounded space of goto programs, smallest first.
//
//	quick:    n<=2: all CFGs x all escape assignments x {defer};  n=3: CFGs with unordered target pairs x
//	          (no escape | p=&x in one block)
//	thorough: n<=3: all CFGs x all escape assignments (n<=2 also with defer; n=3 with defer for at most
//	          one escaping block);  n=4: CFGs with unordered target pairs x (no escape | p=&x in the third block)
func wfGotoSpecs(thorough bool) []wfGotoSpec {
	var all []wfGotoSpec
	add := func(n int, ordered bool, escLevel int, plain, withDefer bool) {
		for _, t := range wfGotoCFGs(n, ordered) {
			for _, e := range wfEscMasks(n, escLevel) {
				if plain {
					all = append(all, wfGotoSpec{N: n, T: t, Esc: e})
				}
				if withDefer {
					all = append(all, wfGotoSpec{N: n, T: t, Esc: e, Defer: true})
				}
			}
		}
	}
	add(1, true, 2, true, true)
	add(2, true, 2, true, true)
	if thorough {
		add(3, true, 2, true, false)
		add(3, true, 1, false, true)
		for _, t := range wfGotoCFGs(4, false) {
			all = append(all, wfGotoSpec{N: 4, T: t, Esc: []int{0, 0, 0, 0}})
			all = append(all, wfGotoSpec{N: 4, T: t, Esc: []int{0, 0, 1, 0}})
		}
	} else {
		add(3, false, 0, true, false)
	}
	return all
}

func (r *wfRun) structProgram(specs []wfStructSpec, goMinor int, mode ir.BuilderMode) {
	var src strings.Builder
	src.WriteString("package p\n\nimport \"gen/lib\"\n\nvar _ = lib.Ptr[int]\n")
	src.WriteString(wfStructPrelude)
	name := func(i int) string { return fmt.Sprintf("s%d", i) }
	for i, s := range specs {
		src.WriteString(s.source(name(i)))
	}
	// a second client of lib, so that two packages instantiate the same generic functions
	const q = "package q\n\nimport \"gen/lib\"\n\nfunc Q(s []int, str string) int {\n\tvar l lib.List[int]\n\tl.Push(1)\n\treturn lib.Sum(lib.Map(s, func(e int) int { return e })) + l.Len() + int(lib.First(str)) + *lib.Ptr(2) + lib.Apply[lib.Cell](3).Get()\n}\n"
	pkgs := []wfGenPkg{{"gen/lib", wfLibSrc}, {"gen/p", src.String()}, {"gen/q", q}}
	built, prog, genErr, buildPanic := wfBuildProgram(pkgs, goMinor, mode)
	if genErr != "" {
		r.res.Note("generator defect (structured family, go1.%d): %s", goMinor, genErr)
		r.res.NotExhaustive("a generated program did not type-check")
		return
	}
	if buildPanic != "" {
		r.mu.Lock()
		key := fmt.Sprintf("struct:go1.%d:build.panic", goMinor)
		r.found[key] = wfFound{key: key, mode: mode, c: wfCase{Kind: "struct", Struct: &specs[0], Mode: int(mode), Rule: "build.panic"},
			msg: fmt.Sprintf("[build.panic] the builder panicked in mode %s on the structured programs for go1.%d: %s", wfModeName(mode), goMinor, buildPanic)}
		r.mu.Unlock()
		return
	}
	var irpkgs []*ir.Package
	for _, bp := range built {
		irpkgs = append(irpkgs, bp.Pkg)
	}
	fns, ext, pmsg := wfAllFunctions(prog, irpkgs)
	r.cNoBody.Add(int64(ext))
	if pmsg != "" {
		r.mu.Lock()
		key := fmt.Sprintf("struct:go1.%d:methodvalue.panic", goMinor)
		r.found[key] = wfFound{key: key, mode: mode, c: wfCase{Kind: "struct", Struct: &specs[0], Mode: int(mode), Rule: "methodvalue.panic"},
			msg: fmt.Sprintf("[methodvalue.panic] building method wrappers panicked in mode %s: %s", wfModeName(mode), pmsg)}
		r.mu.Unlock()
	}
	// map top-level generated functions back to their spec
	byName := map[string]int{}
	for i := range specs {
		byName["gen/p."+name(i)] = i
	}
	for _, fn := range fns {
		root := fn
		for root.Parent() != nil {
			root = root.Parent()
		}
		if i, ok := byName[root.String()]; ok {
			spec := specs[i]
			js, _ := json.Marshal(spec)
			r.checkOne(fn, mode, fmt.Sprintf("struct:%s:%s", js, wfKeyPart(strings.TrimPrefix(fn.String(), root.String()))), wfCase{Kind: "struct", Struct: &spec},
				fmt.Sprintf("\nconstruct %s, shape %s, skeleton %s; source:\n%s", wfConstructs[spec.Construct].Name, wfShapes[spec.Shape].Name, wfSkeletons[spec.Skeleton].Name, spec.source("f")))
		} else {
			spec := specs[0]
			r.checkOne(fn, mode, fmt.Sprintf("struct:go1.%d:%s", goMinor, wfKeyPart(fn.String())), wfCase{Kind: "struct", Struct: &spec}, "")
		}
	}
	r.res.Count("generated_structured_function_builds", int64(len(specs)))
}

func (r *wfRun) generated() {
	// statements whose header expressions contain control flow: one program per (statement, operand, mode)
	hdrs := wfHdrSpecs()
	r.res.Count("header_specs", int64(len(hdrs)))
	r.res.Sample(map[string]any{"kind": "hdr", "hdr": hdrs[1], "source": hdrs[1].source("f")})
	{
		var hskipped atomic.Int64
		wfParallel(len(hdrs)*len(wfModes16), func(i int) {
			if r.expired() {
				hskipped.Add(1)
				return
			}
			r.hdrProgram(hdrs[i/len(wfModes16)], wfModes16[i%len(wfModes16)], i/len(wfModes16) == 0)
		})
		if n := hskipped.Load(); n > 0 {
			r.res.NotExhaustive(fmt.Sprintf("time budget reached: %d of %d header-family programs not run", n, len(hdrs)*len(wfModes16)))
		}
	}
	if os.Getenv("VERIF_C02_ONLY_GEN") == "hdr" { // development aid
		return
	}
	// the small families: a few thousand tiny functions × 16 modes
	minis := wfMiniSpecs()
	r.res.Count("mini_specs", int64(len(minis)))
	r.res.Sample(map[string]any{"kind": "mini", "mini": minis[len(minis)-40], "source": minis[len(minis)-40].source("f")})
	{
		const mb = 160
		type mjob struct {
			lo, hi int
			mode   ir.BuilderMode
		}
		var mjobs []mjob
		for lo := 0; lo < len(minis); lo += mb {
			hi := min(lo+mb, len(minis))
			for _, m := range wfModes16 {
				mjobs = append(mjobs, mjob{lo, hi, m})
			}
		}
		var mskipped atomic.Int64
		wfParallel(len(mjobs), func(i int) {
			if r.expired() {
				mskipped.Add(1)
				return
			}
			r.miniBatch(minis[mjobs[i].lo:mjobs[i].hi], mjobs[i].mode)
		})
		if n := mskipped.Load(); n > 0 {
			r.res.NotExhaustive(fmt.Sprintf("time budget reached: %d of %d mini batches not run", n, len(mjobs)))
		}
	}
	if os.Getenv("VERIF_C02_ONLY_GEN") == "mini" { // development aid
		return
	}
	// structured programs: both language versions × 16 modes
	type sjob struct {
		minor int
		mode  ir.BuilderMode
	}
	var sjobs []sjob
	for _, minor := range []int{21, 26} {
		for _, m := range wfModes16 {
			sjobs = append(sjobs, sjob{minor, m})
		}
	}
	ss := wfStructSpecs(26)
	r.res.Count("structured_specs_go1.26", int64(len(ss)))
	r.res.Count("structured_specs_go1.21", int64(len(wfStructSpecs(21))))
	smp := ss[len(ss)/3]
	r.res.Sample(map[string]any{"kind": "struct", "struct": smp, "source": smp.source("f")})
	var skipped atomic.Int64
	wfParallel(len(sjobs), func(i int) {
		if r.expired() {
			skipped.Add(1)
			return
		}
		j := sjobs[i]
		r.structProgram(wfStructSpecs(j.minor), j.minor, j.mode)
	})
	if n := skipped.Load(); n > 0 {
		r.res.NotExhaustive(fmt.Sprintf("time budget reached: %d of %d structured programs not run", n, len(sjobs)))
	}
	specs := wfGotoSpecs(vx.Thorough())
	if os.Getenv("VERIF_C02_ONLY_GEN") == "struct" { // development aid
		specs = specs[:1]
	}
	r.res.Count("goto_specs", int64(len(specs)))
	mid := specs[len(specs)/2]
	r.res.Sample(map[string]any{"kind": "goto", "goto": mid, "source": mid.source("f")})
	const batch = 200
	type job struct {
		lo, hi int
		mode   ir.BuilderMode
	}
	var jobs []job
	for lo := 0; lo < len(specs); lo += batch {
		hi := lo + batch
		if hi > len(specs) {
			hi = len(specs)
		}
		for _, m := range wfModes16 {
			jobs = append(jobs, job{lo, hi, m})
		}
	}
	skipped.Store(0)
	wfParallel(len(jobs), func(i int) {
		if r.expired() {
			skipped.Add(1)
			return
		}
		j := jobs[i]
		r.gotoBatch(specs[j.lo:j.hi], j.mode)
	})
	if n := skipped.Load(); n > 0 {
		r.res.NotExhaustive(fmt.Sprintf("time budget reached: %d of %d goto batches not run", n, len(jobs)))
	}
}

// ---------------------------------------------------------------------------------------------
// corpora

const wfLoadMode = packages.NeedName | packages.NeedFiles | packages.NeedCompiledGoFiles | packages.NeedImports |
	packages.NeedTypes | packages.NeedTypesSizes | packages.NeedSyntax | packages.NeedTypesInfo | packages.NeedDeps | packages.NeedModule

// wfEnv is the environment for `go list`: the harness' own, with variables that would change the
// package graph removed.
func wfEnv(extra ...string) []string {
	var env []string
	for _, e := range os.Environ() {
		if strings.HasPrefix(e, "GOFLAGS=") || strings.HasPrefix(e, "VERIF_") {
			continue
		}
		env = append(env, e)
	}
	return append(env, extra...)
}

type wfCorpus struct {
	Name    string // "std" | "repo" | "td:<dir>"
	Pkgs    []*packages.Package
	Skipped int
	Why     []string // first error of each skipped package
}

// wfSelect filters a load result: packages with syntax that type-check; of a package and its test
// variant only the variant (a superset) is kept; synthesized test mains are dropped.
func wfSelect(loaded []*packages.Package) (out []*packages.Package, skipped int, why []string) {
	hasVariant := map[string]bool{}
	for _, p := range loaded {
		if i := strings.Index(p.ID, " ["); i > 0 && p.ID[:i] == p.PkgPath {
			hasVariant[p.PkgPath] = true
		}
	}
	for _, p := range loaded {
		if strings.HasSuffix(p.ID, ".test") || p.PkgPath == "unsafe" {
			continue
		}
		if p.ID == p.PkgPath && hasVariant[p.PkgPath] {
			continue
		}
		if len(p.Errors) == 0 && len(p.GoFiles)+len(p.CompiledGoFiles) == 0 {
			continue // a directory with test files only: no package to build
		}
		if len(p.Errors) > 0 || p.IllTyped || p.Types == nil || p.TypesInfo == nil || len(p.Syntax) == 0 {
			skipped++
			w := p.ID + ": no syntax or types"
			if len(p.Errors) > 0 {
				w = p.ID + ": " + p.Errors[0].Error()
			}
			why = append(why, w)
			continue
		}
		out = append(out, p)
	}
	sort.Slice(out, func(i, j int) bool { return out[i].ID < out[j].ID })
	sort.Strings(why)
	return out, skipped, why
}

// wfLoadCtx bounds `go list` by the run's deadline (zero: none): a load that cannot finish within the
// budget is abandoned and reported as not exhaustive.
var wfLoadDeadline time.Time

func wfLoadCtx() (context.Context, context.CancelFunc) {
	if wfLoadDeadline.IsZero() {
		return context.WithCancel(context.Background())
	}
	return context.WithDeadline(context.Background(), wfLoadDeadline)
}

func wfLoadStd(patterns ...string) (*wfCorpus, error) {
	if len(patterns) == 0 {
		patterns = []string{"std"}
	}
	ctx, cancel := wfLoadCtx()
	defer cancel()
	cfg := &packages.Config{Mode: wfLoadMode, Env: wfEnv(), Dir: vx.RepoDir(), Context: ctx}
	loaded, err := packages.Load(cfg, patterns...)
	if err != nil {
		return nil, err
	}
	c := &wfCorpus{Name: "std"}
	c.Pkgs, c.Skipped, c.Why = wfSelect(loaded)
	return c, nil
}

func wfLoadRepo(tests bool, patterns ...string) (*wfCorpus, error) {
	if len(patterns) == 0 {
		patterns = []string{"honnef.co/go/tools/..."}
	}
	ctx, cancel := wfLoadCtx()
	defer cancel()
	cfg := &packages.Config{Mode: wfLoadMode, Env: wfEnv(), Dir: vx.RepoDir(), Tests: tests, Context: ctx}
	loaded, err := packages.Load(cfg, patterns...)
	if err != nil {
		return nil, err
	}
	c := &wfCorpus{Name: "repo"}
	c.Pkgs, c.Skipped, c.Why = wfSelect(loaded)
	return c, nil
}

func wfTestdataDirs() []string {
	var out []string
	root := vx.RepoDir()
	filepath.WalkDir(root, func(path string, d os.DirEntry, err error) error {
		if err != nil || !d.IsDir() {
			return nil
		}
		if strings.HasPrefix(d.Name(), ".") && path != root {
			return filepath.SkipDir
		}
		if filepath.Base(filepath.Dir(path)) == "testdata" && strings.HasPrefix(d.Name(), "go1.") {
			rel, _ := filepath.Rel(root, path)
			out = append(out, rel)
			return filepath.SkipDir
		}
		return nil
	})
	sort.Strings(out)
	return out
}

// wfLoadTestdata loads one testdata/go1.N module the way analysis/lint/testutil.Run does.
func wfLoadTestdata(rel string) (*wfCorpus, error) {
	dir := filepath.Join(vx.RepoDir(), rel)
	vers := strings.TrimPrefix(filepath.Base(dir), "go")
	ctx, cancel := wfLoadCtx()
	defer cancel()
	cfg := &packages.Config{
		Mode:    wfLoadMode,
		Context: ctx,
		Dir:     dir,
		Tests:   true,
		Env:     wfEnv("GOPROXY=off", "GOFLAGS=-mod=vendor", "GO111MODULE="),
		Overlay: map[string][]byte{
			filepath.Join(dir, "go.mod"): []byte("module example.com\ngo " + vers),
		},
	}
	loaded, err := packages.Load(cfg, "./...")
	if err != nil {
		return nil, err
	}
	c := &wfCorpus{Name: "td:" + rel}
	c.Pkgs, c.Skipped, c.Why = wfSelect(loaded)
	return c, nil
}

// checkCorpus builds the corpus in each mode (one program at a time) and checks every function.
// only, if non-nil, restricts checking to functions for which it returns true (replay).
func (r *wfRun) checkCorpus(c *wfCorpus, modes []ir.BuilderMode, only func(pkg, fn string) bool) (done int) {
	if len(c.Pkgs) == 0 {
		return len(modes)
	}
	for _, mode := range modes {
		if r.res.Expired() {
			return done
		}
		t0 := time.Now()
		prog, irpkgs := irutil.Packages(c.Pkgs, mode)
		var bmsg string
		if mode&ir.BuildSerially != 0 {
			bmsg = vx.Catch(prog.Build)
		} else {
			prog.Build()
		}
		tBuild := time.Since(t0)
		if bmsg != "" {
			key := fmt.Sprintf("%s:build.panic", wfKeyPart(c.Name))
			r.mu.Lock()
			r.found[key] = wfFound{key: key, mode: mode, c: wfCase{Kind: "corpus", Corpus: c.Name, Mode: int(mode), Rule: "build.panic"},
				msg: fmt.Sprintf("[build.panic] Program.Build panicked on corpus %s in mode %s: %s", c.Name, wfModeName(mode), bmsg)}
			r.mu.Unlock()
			done++
			continue
		}
		fns, ext, pmsg := wfAllFunctions(prog, irpkgs)
		r.cNoBody.Add(int64(ext))
		if pmsg != "" {
			key := fmt.Sprintf("%s:methodvalue.panic", wfKeyPart(c.Name))
			r.mu.Lock()
			r.found[key] = wfFound{key: key, mode: mode, c: wfCase{Kind: "corpus", Corpus: c.Name, Mode: int(mode), Rule: "methodvalue.panic"},
				msg: fmt.Sprintf("[methodvalue.panic] building method wrappers panicked on corpus %s in mode %s: %s", c.Name, wfModeName(mode), pmsg)}
			r.mu.Unlock()
		}
		t1 := time.Now()
		wfParallel(len(fns), func(i int) {
			fn := fns[i]
			pkg, name := wfPkgOf(fn), fn.String()
			if only != nil && !only(pkg, name) {
				return
			}
			r.checkOne(fn, mode, fmt.Sprintf("%s:%s:%s", wfKeyPart(c.Name), wfKeyPart(pkg), wfKeyPart(name)),
				wfCase{Kind: "corpus", Corpus: c.Name, Pkg: pkg, Fn: name}, "")
		})
		tCheck := time.Since(t1)
		kind := c.Name
		if strings.HasPrefix(kind, "td:") {
			kind = "testdata"
		}
		r.res.Count("ms_build_"+kind, tBuild.Milliseconds())
		r.res.Count("ms_check_"+kind, tCheck.Milliseconds())
		r.res.Count("corpus_mode_runs_"+kind, 1)
		r.res.Count("corpus_functions_"+kind, int64(len(fns)))
		if kind != "testdata" {
			r.res.Count(fmt.Sprintf("functions_%s_mode_%s", kind, wfModeName(mode)), int64(len(fns)))
		}
		done++
	}
	return done
}

func (r *wfRun) corpora() {
	res := r.res
	modes := vx.Pick(wfModes4, wfModes16)
	if v := os.Getenv("VERIF_C02_MODES"); v != "" { // development aid: comma-separated mode bit sets 0..15
		modes = nil
		for _, f := range strings.Split(v, ",") {
			var k int
			fmt.Sscanf(f, "%d", &k)
			modes = append(modes, wfModes16[k&15])
		}
	}
	want := func(c string) bool { // development aid: VERIF_C02_CORPORA=std,repo,td
		v := os.Getenv("VERIF_C02_CORPORA")
		return v == "" || strings.Contains(","+v+",", ","+c+",")
	}
	var wg sync.WaitGroup

	// std
	wg.Add(1)
	go func() {
		defer wg.Done()
		if !want("std") {
			return
		}
		t0 := time.Now()
		c, err := wfLoadStd()
		if err != nil {
			res.Note("loading std failed: %v", err)
			res.NotExhaustive("std not loaded")
			return
		}
		res.Count("ms_load_std", time.Since(t0).Milliseconds())
		res.Count("packages_std", int64(len(c.Pkgs)))
		if c.Skipped > 0 {
			res.Count("packages_std_with_errors", int64(c.Skipped))
			res.NotExhaustive(fmt.Sprintf("%d std packages did not load without errors: %s", c.Skipped, strings.Join(c.Why, "; ")))
		}
		if done := r.checkCorpus(c, modes, nil); done < len(modes) {
			res.NotExhaustive(fmt.Sprintf("time budget reached: std checked in %d of %d modes", done, len(modes)))
		}
	}()

	// the repository, then the testdata modules
	wg.Add(1)
	go func() {
		defer wg.Done()
		t0 := time.Now()
		var c *wfCorpus
		var err error
		if want("repo") {
			c, err = wfLoadRepo(true)
		} else {
			c = &wfCorpus{Name: "repo"}
		}
		if err != nil {
			res.Note("loading the repository failed: %v", err)
			res.NotExhaustive("repository not loaded")
		} else {
			res.Count("ms_load_repo", time.Since(t0).Milliseconds())
			res.Count("packages_repo", int64(len(c.Pkgs)))
			if c.Skipped > 0 {
				res.Count("packages_repo_with_errors", int64(c.Skipped))
				res.NotExhaustive(fmt.Sprintf("%d repository packages did not load without errors: %s", c.Skipped, strings.Join(c.Why, "; ")))
			}
			if done := r.checkCorpus(c, modes, nil); done < len(modes) {
				res.NotExhaustive(fmt.Sprintf("time budget reached: repository checked in %d of %d modes", done, len(modes)))
			}
		}
		c = nil
		if !want("td") {
			return
		}
		dirs := wfTestdataDirs()
		res.Count("testdata_modules_total", int64(len(dirs)))
		if !vx.Thorough() {
			// quick tier: every 8th module (deterministic slice); the thorough tier takes all
			var sl []string
			for i, d := range dirs {
				if i%8 == 0 {
					sl = append(sl, d)
				}
			}
			dirs = sl
		}
		var undone atomic.Int64
		sem := make(chan struct{}, 4)
		var twg sync.WaitGroup
		for _, d := range dirs {
			twg.Add(1)
			sem <- struct{}{}
			go func(d string) {
				defer twg.Done()
				defer func() { <-sem }()
				if res.Expired() {
					undone.Add(1)
					return
				}
				tc, err := wfLoadTestdata(d)
				if err != nil {
					res.Note("loading %s failed: %v", d, err)
					res.NotExhaustive("a testdata module did not load")
					return
				}
				res.Count("testdata_modules_loaded", 1)
				res.Count("packages_testdata", int64(len(tc.Pkgs)))
				res.Count("packages_testdata_not_type_correct_out_of_scope", int64(tc.Skipped))
				if done := r.checkCorpus(tc, modes, nil); done < len(modes) {
					undone.Add(1)
				}
			}(d)
		}
		twg.Wait()
		if n := undone.Load(); n > 0 {
			res.NotExhaustive(fmt.Sprintf("time budget reached: %d of %d testdata modules not (completely) checked", n, len(dirs)))
		}
	}()
	wg.Wait()
}

// ---------------------------------------------------------------------------------------------

func TestVerifC02(t *testing.T) {
	res := vx.New(wfRule)
	defer res.Write()
	r := newWfRun(res)
	if _, raw, ok := vx.Replay(); ok {
		r.replay(raw)
		r.finish()
		return
	}
	// the checker must notice deliberate corruptions before its silence means anything
	if det, fails := wfSelfTest(); len(fails) > 0 {
		for _, f := range fails {
			res.Note("checker self-test: %s", f)
		}
		res.NotExhaustive("checker self-test failed")
		res.Count("checker_selftest_corruptions_detected", int64(det))
	} else {
		res.Count("checker_selftest_corruptions_detected", int64(det))
	}
	budget := vx.Budget(100*time.Second, 17*time.Minute)
	res.SetBudget(budget)
	wfLoadDeadline = time.Now().Add(budget)
	only := os.Getenv("VERIF_C02_ONLY") // development aid: gen | corpora
	t0 := time.Now()
	if only == "" || only == "gen" {
		// the generated programs get at most this share of the budget; the corpora get the rest
		r.phaseEnd = t0.Add(budget * 35 / 100)
		r.generated()
		r.phaseEnd = time.Time{}
		res.Count("ms_generated", time.Since(t0).Milliseconds())
	}
	if only == "" || only == "corpora" {
		r.corpora()
	}
	r.finish()
	res.Sample(map[string]any{"kind": "totals", "functions_checked": r.functions.Load(), "instructions_checked": r.instrs.Load(), "nontrivial": r.nontriv.Load()})
}

func (r *wfRun) replay(raw json.RawMessage) {
	var c wfCase
	if err := json.Unmarshal(raw, &c); err != nil {
		r.res.Note("replay: cannot decode case: %v", err)
		r.res.NotExhaustive("bad replay file")
		return
	}
	mode := ir.BuilderMode(c.Mode)
	switch c.Kind {
	case "goto":
		if c.Goto != nil {
			r.gotoBatch([]wfGotoSpec{*c.Goto}, mode)
		}
	case "hdr":
		if c.Hdr != nil && c.Hdr.ok() {
			r.hdrProgram(*c.Hdr, mode, false)
		}
	case "mini":
		if c.Mini != nil && c.Mini.ok() {
			r.miniBatch([]wfMiniSpec{*c.Mini}, mode)
		}
	case "struct":
		if c.Struct != nil && c.Struct.ok() {
			r.structProgram([]wfStructSpec{*c.Struct}, c.Struct.GoMinor, mode)
		}
	case "corpus":
		var corp *wfCorpus
		var err error
		load := func(whole bool) {
			switch {
			case c.Corpus == "std":
				if whole || c.Pkg == "(shared)" {
					corp, err = wfLoadStd()
				} else {
					corp, err = wfLoadStd(c.Pkg)
				}
			case c.Corpus == "repo":
				if whole || c.Pkg == "(shared)" {
					corp, err = wfLoadRepo(true)
				} else {
					corp, err = wfLoadRepo(true, c.Pkg)
				}
			case strings.HasPrefix(c.Corpus, "td:"):
				corp, err = wfLoadTestdata(strings.TrimPrefix(c.Corpus, "td:"))
			default:
				err = fmt.Errorf("unknown corpus %q", c.Corpus)
			}
		}
		load(false)
		if err != nil {
			r.res.Note("replay: %v", err)
			r.res.NotExhaustive("replay load failed")
			return
		}
		only := func(pkg, fn string) bool { return c.Fn == "" || fn == c.Fn }
		before := r.functions.Load()
		r.checkCorpus(corp, []ir.BuilderMode{mode}, only)
		if r.functions.Load() == before && c.Fn != "" && !strings.HasPrefix(c.Corpus, "td:") {
			// the function (a wrapper or instance created on behalf of another package) does not
			// exist when the package is built alone: build the whole corpus
			load(true)
			if err == nil {
				r.checkCorpus(corp, []ir.BuilderMode{mode}, only)
			}
		}
	}
}
