//go:build verif

package ir_test

// C02 checker self-test: a well-formed function is corrupted through the exported fields of the
// IR (one corruption per rule family) and the checker must name the expected rule. This guards
// against a checker that passes everything; a failure here is a harness defect (NotExhaustive),
// never a violation.

import (
	"fmt"
	"go/constant"
	"go/types"

	"honnef.co/go/tools/go/ir"
	"honnef.co/go/tools/internal/verifx/vx"
)

const wfSelfSrc = `package s

type T struct {
	f int
	g string
}

func F(c bool, a int, t *T, g func(int) int) int {
	x := a
	if c {
		x = a + 1
	}
	t.f = x
	y := g(x)
	return x + y
}

func G(a int) int { return a }
`

type wfCorruption struct {
	name string
	mode ir.BuilderMode
	rule string                       // expected rule (prefix)
	do   func(f, g *ir.Function) bool // false: the shape needed was not found
}

func wfFind[T ir.Instruction](f *ir.Function) (T, *ir.BasicBlock, int) {
	for _, b := range f.Blocks {
		for i, instr := range b.Instrs {
			if x, ok := instr.(T); ok {
				return x, b, i
			}
		}
	}
	var zero T
	return zero, nil, -1
}

var wfCorruptions = []wfCorruption{
	{"swap two blocks", 0, "cfg.index", func(f, g *ir.Function) bool {
		n := len(f.Blocks)
		if n < 3 {
			return false
		}
		f.Blocks[n-1], f.Blocks[n-2] = f.Blocks[n-2], f.Blocks[n-1]
		return true
	}},
	{"extra successor without predecessor entry", 0, "cfg.inverse", func(f, g *ir.Function) bool {
		b := f.Blocks[0]
		b.Succs = append(b.Succs, f.Blocks[len(f.Blocks)-1])
		return true
	}},
	{"duplicate edge", 0, "cfg.dupedge", func(f, g *ir.Function) bool {
		b := f.Blocks[0]
		if len(b.Succs) != 2 {
			return false
		}
		old := b.Succs[1]
		b.Succs[1] = b.Succs[0]
		// keep the relation an inverse so that only the duplicate is wrong
		for i, p := range old.Preds {
			if p == b {
				old.Preds = append(old.Preds[:i], old.Preds[i+1:]...)
				break
			}
		}
		b.Succs[0].Preds = append(b.Succs[0].Preds, b)
		return true
	}},
	{"drop the terminator", 0, "term.missing", func(f, g *ir.Function) bool {
		b := f.Blocks[len(f.Blocks)-1]
		b.Instrs = b.Instrs[:len(b.Instrs)-1]
		return true
	}},
	{"terminator arity", 0, "term.arity", func(f, g *ir.Function) bool {
		_, b, _ := wfFind[*ir.Return](f)
		if b == nil {
			return false
		}
		b.Succs = append(b.Succs, f.Blocks[0])
		f.Blocks[0].Preds = append(f.Blocks[0].Preds, b)
		return true
	}},
	{"phi after a non-phi", 0, "phi.lead", func(f, g *ir.Function) bool {
		_, b, i := wfFind[*ir.Phi](f)
		if b == nil || len(b.Instrs) < i+3 {
			return false
		}
		b.Instrs[i], b.Instrs[i+1] = b.Instrs[i+1], b.Instrs[i]
		return true
	}},
	{"phi with too few edges", 0, "phi.edges", func(f, g *ir.Function) bool {
		phi, _, _ := wfFind[*ir.Phi](f)
		if phi == nil {
			return false
		}
		phi.Edges = phi.Edges[:len(phi.Edges)-1]
		return true
	}},
	{"use before definition in a block", 0, "dom.use", func(f, g *ir.Function) bool {
		call, b, i := wfFind[*ir.Call](f)
		if call == nil {
			return false
		}
		for j := i + 1; j < len(b.Instrs); j++ {
			if bo, ok := b.Instrs[j].(*ir.BinOp); ok && (bo.X == ir.Value(call) || bo.Y == ir.Value(call)) {
				b.Instrs[i], b.Instrs[j] = b.Instrs[j], b.Instrs[i]
				return true
			}
		}
		return false
	}},
	{"use of a value defined in a non-dominating block", 0, "dom.use", func(f, g *ir.Function) bool {
		// the BinOp a+1 of the then-block used in the join block
		var inner *ir.BinOp
		for _, b := range f.Blocks[1:] {
			for _, instr := range b.Instrs {
				if bo, ok := instr.(*ir.BinOp); ok && len(b.Succs) == 1 && len(b.Preds) == 1 {
					inner = bo
				}
			}
		}
		st, _, _ := wfFind[*ir.Store](f)
		if inner == nil || st == nil {
			return false
		}
		st.Val = inner
		*inner.Referrers() = append(*inner.Referrers(), st)
		return true
	}},
	{"phi edge not available at the end of its predecessor", 0, "dom.phi", func(f, g *ir.Function) bool {
		phi, b, _ := wfFind[*ir.Phi](f)
		if phi == nil || len(phi.Edges) != 2 {
			return false
		}
		// swap the edges: the value defined in the then-block now arrives from the entry block
		phi.Edges[0], phi.Edges[1] = phi.Edges[1], phi.Edges[0]
		_ = b
		return true
	}},
	{"referrers emptied", 0, "ref.missing", func(f, g *ir.Function) bool {
		phi, _, _ := wfFind[*ir.Phi](f)
		if phi == nil {
			return false
		}
		*phi.Referrers() = nil
		return true
	}},
	{"stale referrer", 0, "ref.stale", func(f, g *ir.Function) bool {
		phi, _, _ := wfFind[*ir.Phi](f)
		ret, _, _ := wfFind[*ir.Return](f)
		if phi == nil || ret == nil {
			return false
		}
		*phi.Referrers() = append(*phi.Referrers(), ret)
		return true
	}},
	{"referrer listed more often than it uses the value", 0, "ref.count", func(f, g *ir.Function) bool {
		phi, _, _ := wfFind[*ir.Phi](f)
		if phi == nil || len(*phi.Referrers()) == 0 {
			return false
		}
		*phi.Referrers() = append(*phi.Referrers(), (*phi.Referrers())[0])
		return true
	}},
	{"operand from another function", 0, "op.foreign", func(f, g *ir.Function) bool {
		st, _, _ := wfFind[*ir.Store](f)
		if st == nil || len(g.Params) == 0 {
			return false
		}
		st.Val = g.Params[0]
		return true
	}},
	{"nil operand", 0, "op.nil", func(f, g *ir.Function) bool {
		st, _, _ := wfFind[*ir.Store](f)
		if st == nil {
			return false
		}
		st.Val = nil
		return true
	}},
	{"operand removed from its block", 0, "op.dangling", func(f, g *ir.Function) bool {
		fa, b, i := wfFind[*ir.FieldAddr](f)
		if fa == nil {
			return false
		}
		b.Instrs = append(b.Instrs[:i:i], b.Instrs[i+1:]...)
		return true
	}},
	{"local alloc dropped from Locals", ir.NaiveForm, "locals.missing", func(f, g *ir.Function) bool {
		if len(f.Locals) == 0 {
			return false
		}
		f.Locals = f.Locals[1:]
		return true
	}},
	{"store of a differently typed value", 0, "type.Store.elem", func(f, g *ir.Function) bool {
		st, _, _ := wfFind[*ir.Store](f)
		if st == nil {
			return false
		}
		st.Val = ir.NewConst(constant.MakeString("s"), types.Typ[types.String], nil)
		return true
	}},
	{"binary operation on differently typed operands", 0, "type.BinOp.operand", func(f, g *ir.Function) bool {
		bo, _, _ := wfFind[*ir.BinOp](f)
		if bo == nil {
			return false
		}
		bo.Y = ir.NewConst(constant.MakeInt64(1), types.Typ[types.Int64], nil)
		return true
	}},
	{"non-boolean condition", 0, "type.If.cond", func(f, g *ir.Function) bool {
		i, _, _ := wfFind[*ir.If](f)
		if i == nil {
			return false
		}
		i.Cond = ir.NewConst(constant.MakeInt64(1), types.Typ[types.Int], nil)
		return true
	}},
	{"field index out of range", 0, "type.FieldAddr.index", func(f, g *ir.Function) bool {
		fa, _, _ := wfFind[*ir.FieldAddr](f)
		if fa == nil {
			return false
		}
		fa.Field = 7
		return true
	}},
	{"field address of the wrong field", 0, "type.FieldAddr.fieldtype", func(f, g *ir.Function) bool {
		fa, _, _ := wfFind[*ir.FieldAddr](f)
		if fa == nil {
			return false
		}
		fa.Field = 1
		return true
	}},
	{"call with a missing argument", 0, "type.Call.arity", func(f, g *ir.Function) bool {
		call, _, _ := wfFind[*ir.Call](f)
		if call == nil {
			return false
		}
		call.Call.Args = nil
		return true
	}},
	{"return with the wrong number of results", 0, "type.Return.arity", func(f, g *ir.Function) bool {
		ret, _, _ := wfFind[*ir.Return](f)
		if ret == nil {
			return false
		}
		ret.Results = append(ret.Results, ret.Results[0])
		return true
	}},
	{"phi edge of a different type", 0, "type.Phi.edge", func(f, g *ir.Function) bool {
		phi, _, _ := wfFind[*ir.Phi](f)
		if phi == nil {
			return false
		}
		phi.Edges[0] = ir.NewConst(constant.MakeString("s"), types.Typ[types.String], nil)
		return true
	}},
}

// wfSelfTest returns the number of corruptions detected and a description of each failure.
func wfSelfTest() (detected int, failures []string) {
	for _, c := range wfCorruptions {
		built, _, genErr, bp := wfBuildProgram([]wfGenPkg{{"gen/s", wfSelfSrc}}, 26, c.mode|ir.BuildSerially)
		if genErr != "" || bp != "" {
			failures = append(failures, fmt.Sprintf("%s: sample does not build: %s%s", c.name, genErr, bp))
			continue
		}
		f, g := built[0].Pkg.Func("F"), built[0].Pkg.Func("G")
		if vs, _ := wfCheckFunction(f); len(vs) != 0 {
			failures = append(failures, fmt.Sprintf("%s: the uncorrupted sample is reported: %v", c.name, vs[0]))
			continue
		}
		var applied bool
		var vs []wfViolation
		msg := vx.Catch(func() {
			applied = c.do(f, g)
			if applied {
				vs, _ = wfCheckFunction(f)
			}
		})
		if msg != "" {
			failures = append(failures, fmt.Sprintf("%s: checker panicked: %s", c.name, msg))
			continue
		}
		if !applied {
			failures = append(failures, fmt.Sprintf("%s: the sample lacks the shape to corrupt", c.name))
			continue
		}
		hit := false
		for _, v := range vs {
			if v.Rule == c.rule {
				hit = true
			}
		}
		if hit {
			detected++
		} else {
			var got []string
			for _, v := range vs {
				got = append(got, v.Rule)
			}
			failures = append(failures, fmt.Sprintf("%s: expected rule %s, checker reported %v", c.name, c.rule, got))
		}
	}
	return detected, failures
}
