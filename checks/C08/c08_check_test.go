//go:build verif

package code_test

// C08, part 3: the oracle and the test function.
//
// For every (pattern, package) pair
//   LEFT  = what a check obtains: the (node, bindings) pairs yielded by the real code.Matches on the
//           pass a probe analyzer (Requires = code.RequiredAnalyzers) received;
//   RIGHT = brute force: a fresh pattern.Matcher tried on every syntax node of the package whose kind
//           the pattern language can name (transparent wrappers are identified with their child).
// The property asserts RIGHT ⊆ LEFT (pre-filtering never drops a match). LEFT \ RIGHT cannot be caused
// by dropping and is reported as unasserted only.

import (
	"encoding/json"
	"fmt"
	"go/ast"
	"go/token"
	"go/types"
	"path/filepath"
	"reflect"
	"runtime"
	"sort"
	"strconv"
	"strings"
	"sync"
	"sync/atomic"
	"testing"
	"time"

	"golang.org/x/tools/go/analysis"

	"honnef.co/go/tools/analysis/code"
	"honnef.co/go/tools/internal/verifx/vx"
	"honnef.co/go/tools/pattern"
)

type c8Pat struct {
	Text   string
	Pat    pattern.Pattern
	Src    string // "harvest:<file:line>" or "gen"
	Checks []string
	// rootList: the root can match as a List. BlockStmt and FieldList have no name in the pattern
	// language; (List …) stands for them. A brute-force match on one of them is asserted only for such
	// patterns: for any other root it is either the match on the only element (match.go: a single node
	// matches a list of one element), already compared on that element, or a catch-all root (_, Not,
	// unbound binding) applied to a node kind that cannot be named.
	rootList bool
	// outside the quantifier of the property as instantiated here: disagreements are listed as
	// unasserted, never as violations
	unassertOnly string
}

func c8Parse(text string) (p pattern.Pattern, err error) {
	msg := vx.Catch(func() {
		// exactly what pattern.MustParse does, without the panic on error
		ps := &pattern.Parser{AllowTypeInfo: true}
		p, err = ps.Parse(text)
	})
	if msg != "" {
		err = fmt.Errorf("parser panic: %s", msg)
	}
	return p, err
}

func (p *c8Pat) hasEntry(n ast.Node) bool {
	for _, e := range p.Pat.EntryNodes {
		if reflect.TypeOf(e) == reflect.TypeOf(n) {
			return true
		}
	}
	return false
}

// namesPkg reports whether the pattern text names a symbol of the generated package c08/<dir>.
func (p *c8Pat) namesPkg(dir string) bool {
	return strings.Contains(p.Text, c8Mod+"/"+dir+".")
}

func c8NewPat(text, src string) (*c8Pat, error) {
	p, err := c8Parse(text)
	if err != nil {
		return nil, err
	}
	cp := &c8Pat{Text: text, Pat: p, Src: src}
	cp.rootList = c8RootCanBeList(p.Root)
	return cp, nil
}

// ---------------------------------------------------------------------------------------------
// Rendering of match results.

func c8NodeKey(fset *token.FileSet, n ast.Node) string {
	pos := fset.Position(n.Pos())
	return fmt.Sprintf("%s@%s:%d+%d", strings.TrimPrefix(reflect.TypeOf(n).String(), "*ast."), filepath.Base(pos.Filename), pos.Offset, int(n.End()-n.Pos()))
}

func c8RenderValue(fset *token.FileSet, v any) string {
	switch v := v.(type) {
	case nil:
		return "nil"
	case string:
		return fmt.Sprintf("%q", v)
	case token.Token:
		return "tok:" + v.String()
	case types.Object:
		if v == nil || reflect.ValueOf(v).IsNil() {
			return "obj:nil"
		}
		pkg := ""
		if v.Pkg() != nil {
			pkg = v.Pkg().Path()
		}
		return fmt.Sprintf("obj:%T:%s.%s@%d", v, pkg, v.Name(), v.Pos())
	case types.TypeAndValue:
		val := "<nil>"
		if v.Value != nil {
			val = v.Value.ExactString()
		}
		return fmt.Sprintf("tv:%s=%s", types.TypeString(v.Type, nil), val)
	case ast.Node:
		if reflect.ValueOf(v).IsNil() {
			return fmt.Sprintf("nil:%T", v)
		}
		// kind@pos+len with the raw token.Pos: unique within the file set, cheap to produce
		return strings.TrimPrefix(reflect.TypeOf(v).String(), "*ast.") + "@" + strconv.Itoa(int(v.Pos())) + "+" + strconv.Itoa(int(v.End()-v.Pos()))
	}
	rv := reflect.ValueOf(v)
	if rv.Kind() == reflect.Slice {
		parts := make([]string, rv.Len())
		for i := range parts {
			parts[i] = c8RenderValue(fset, rv.Index(i).Interface())
		}
		return "[" + strings.Join(parts, ",") + "]"
	}
	return fmt.Sprintf("%T:%v", v, v)
}

func c8RenderState(fset *token.FileSet, st pattern.State) string {
	if len(st) == 0 {
		return "{}"
	}
	keys := make([]string, 0, len(st))
	for k := range st {
		keys = append(keys, k)
	}
	sort.Strings(keys)
	var sb strings.Builder
	sb.WriteByte('{')
	for i, k := range keys {
		if i > 0 {
			sb.WriteByte(' ')
		}
		sb.WriteString(k + "=" + c8RenderValue(fset, st[k]))
	}
	sb.WriteByte('}')
	return sb.String()
}

// ---------------------------------------------------------------------------------------------
// One pair.

type c8Outcome struct {
	rightN     int      // brute-force matches
	leftN      int      // distinct results of code.Matches
	leftDup    int      // results yielded more than once
	missing    []string // in RIGHT, not in LEFT: the property's violation
	missWhat   string   // description of the first missing element: node kind (+ what a call's callee is)
	listOnly   int      // in RIGHT only, on a BlockStmt/FieldList, for a pattern whose root cannot be a List: unasserted
	extra      []string // in LEFT, not in RIGHT
	illFormed  bool     // the pattern binds a name twice (doc.go: an error); pair not compared
	leftPanic  string
	rightPanic string // panic of Match on a node kind the pattern's own entry kinds contain
	otherPanic int    // panics on node kinds never offered: "no match"
}

// c8Key identifies one result: the node (both sides work on the same syntax trees, so identity of the
// node is pointer identity) and the structural rendering of the bindings ("" for none).
type c8Key struct {
	n  ast.Node
	st string
}

func (k c8Key) text(fset *token.FileSet) string {
	st := k.st
	if st == "" {
		st = "{}"
	}
	return c8NodeKey(fset, k.n) + " " + st
}

func c8StateKey(fset *token.FileSet, st pattern.State) string {
	if len(st) == 0 {
		return ""
	}
	return c8RenderState(fset, st)
}

// c8Unwrap identifies a transparent wrapper with its child.
func c8Unwrap(n ast.Node) ast.Node {
	for {
		switch w := n.(type) {
		case *ast.ParenExpr:
			n = w.X
		case *ast.ExprStmt:
			n = w.X
		case *ast.DeclStmt:
			n = w.Decl
		case *ast.LabeledStmt:
			n = w.Stmt
		default:
			return n
		}
	}
}

// c8BruteFrom tries the pattern on nodes[i:], a fresh Matcher per node, until the end or a panic of
// Match; it returns the index to continue from and the panic message, if any, of nodes[next-1].
func c8BruteFrom(p *c8Pat, pass *analysis.Pass, nodes []ast.Node, i int, out *[]c8Key) (next int, panicMsg string) {
	defer func() {
		if e := recover(); e != nil {
			panicMsg = fmt.Sprint(e)
			if panicMsg == "" {
				panicMsg = "panic"
			}
			next = i + 1
		}
	}()
	for ; i < len(nodes); i++ {
		m := &pattern.Matcher{TypesInfo: pass.TypesInfo}
		if m.Match(p.Pat, nodes[i]) {
			*out = append(*out, c8Key{nodes[i], c8StateKey(pass.Fset, m.State)})
		}
	}
	return len(nodes), ""
}

func c8Compare(p *c8Pat, k *c8Pkg) c8Outcome {
	var o c8Outcome
	pass := k.Pass
	var right []c8Key
	for i := 0; i < len(k.Nodes); {
		next, msg := c8BruteFrom(p, pass, k.Nodes, i, &right)
		if msg != "" {
			n := k.Nodes[next-1]
			switch {
			case strings.Contains(msg, "binding already created"):
				o.illFormed = true
			case p.hasEntry(n):
				if o.rightPanic == "" {
					o.rightPanic = c8NodeKey(pass.Fset, n) + ": " + msg
				}
			default:
				o.otherPanic++
			}
		}
		i = next
	}
	o.rightN = len(right)
	var leftList []c8Key
	o.leftPanic = vx.Catch(func() {
		for n, m := range code.Matches(pass, p.Pat) {
			leftList = append(leftList, c8Key{c8Unwrap(n), c8StateKey(pass.Fset, m.State)})
		}
	})
	if strings.Contains(o.leftPanic, "binding already created") {
		o.illFormed = true
	}
	if o.illFormed || o.leftPanic != "" {
		return o
	}
	if len(right) == 0 && len(leftList) == 0 {
		return o
	}
	left := make(map[c8Key]int, len(leftList))
	for _, key := range leftList {
		left[key]++
	}
	o.leftN = len(left)
	for _, c := range left {
		if c > 1 {
			o.leftDup++
		}
	}
	for _, key := range right {
		if left[key] == 0 {
			switch key.n.(type) {
			case *ast.BlockStmt, *ast.FieldList:
				if !p.rootList {
					o.listOnly++
					continue
				}
			}
			if len(o.missing) == 0 {
				o.missWhat = c8What(pass, key.n)
			}
			o.missing = append(o.missing, key.text(pass.Fset))
		}
	}
	if len(left) > 0 {
		rset := make(map[c8Key]bool, len(right))
		for _, key := range right {
			rset[key] = true
		}
		for key := range left {
			if !rset[key] {
				o.extra = append(o.extra, key.text(pass.Fset))
			}
		}
		sort.Strings(o.extra)
	}
	return o
}

// c8What describes a dropped node for grouping: its kind and, for a call, what the callee denotes.
func c8What(pass *analysis.Pass, n ast.Node) string {
	kind := strings.TrimPrefix(reflect.TypeOf(n).String(), "*ast.")
	call, ok := n.(*ast.CallExpr)
	if !ok {
		return kind
	}
	fun := ast.Unparen(call.Fun)
	switch f := fun.(type) {
	case *ast.IndexExpr:
		fun = ast.Unparen(f.X)
	case *ast.IndexListExpr:
		fun = ast.Unparen(f.X)
	}
	var id *ast.Ident
	switch f := fun.(type) {
	case *ast.Ident:
		id = f
	case *ast.SelectorExpr:
		id = f.Sel
	}
	if id == nil {
		return kind
	}
	obj := pass.TypesInfo.ObjectOf(id)
	if obj == nil {
		return kind
	}
	return kind + ":" + strings.TrimPrefix(reflect.TypeOf(obj).String(), "*types.")
}

// c8RootCanBeList reports whether the root of the pattern can match as a List (List itself, through a
// Binding, or an alternative of an Or).
func c8RootCanBeList(n pattern.Node) bool {
	switch n := n.(type) {
	case pattern.List:
		return true
	case pattern.Binding:
		return n.Node != nil && c8RootCanBeList(n.Node)
	case pattern.Or:
		for _, a := range n.Nodes {
			if c8RootCanBeList(a) {
				return true
			}
		}
	}
	return false
}

// c8Stage names the pre-filter that withheld the nodes (used to group reports; not part of the oracle).
func c8Stage(p *c8Pat, pass *analysis.Pass) string {
	could := false
	if msg := vx.Catch(func() { could = code.CouldMatchAny(pass, p.Pat) }); msg != "" {
		return "symbols-panic"
	}
	if !could {
		return "symbol-index"
	}
	if len(p.Pat.RootCallSymbols) != 0 {
		return "root-call-sites"
	}
	return "entry-kinds"
}

func c8RootKind(n pattern.Node) string {
	for {
		if b, ok := n.(pattern.Binding); ok && b.Node != nil {
			n = b.Node
			continue
		}
		break
	}
	if n == nil {
		return "nil"
	}
	return reflect.TypeOf(n).Name()
}

func c8KeyText(s string) string { return strings.Join(strings.Fields(s), "_") }

type c8Case struct {
	Pattern string `json:"pattern"`
	Pkg     string `json:"pkg"`
}

type c8Drop struct {
	sig     string
	pat     *c8Pat
	pkg     string
	stage   string
	missing []string
}

func (d *c8Drop) less(e *c8Drop) bool {
	a, b := strings.Join(strings.Fields(d.pat.Text), " "), strings.Join(strings.Fields(e.pat.Text), " ")
	if len(a) != len(b) {
		return len(a) < len(b)
	}
	if a != b {
		return a < b
	}
	return d.pkg < e.pkg
}

// c8Collector keeps, per signature (withholding pre-filter, root node of the pattern, kind of the
// dropped node), the smallest witnesses; every further disagreement of the same signature is counted.
type c8Collector struct {
	mu    sync.Mutex
	per   map[string][]*c8Drop
	count map[string]int64
	keep  int
}

func (c *c8Collector) add(d *c8Drop) {
	c.mu.Lock()
	defer c.mu.Unlock()
	c.count[d.sig]++
	l := append(c.per[d.sig], d)
	sort.SliceStable(l, func(i, j int) bool { return l[i].less(l[j]) })
	if len(l) > c.keep {
		l = l[:c.keep]
	}
	c.per[d.sig] = l
}

func c8DropMessage(d *c8Drop) string {
	n := len(d.missing)
	show := d.missing
	if len(show) > 4 {
		show = show[:4]
	}
	return fmt.Sprintf("pattern %s (%s) on package %s: %d match(es) found by trying the pattern on every node are not yielded by code.Matches (withheld by: %s): %s",
		strings.Join(strings.Fields(d.pat.Text), " "), d.pat.Src, d.pkg, n, d.stage, strings.Join(show, " ; "))
}

func c8DropKey(pat, pkg string) string { return "drop|" + c8KeyText(pat) + "|" + c8KeyText(pkg) }

// ---------------------------------------------------------------------------------------------

type c8Stats struct {
	pairs, nodes, nontrivial, leftMatches, rightMatches int64
	illFormed, otherPanics, dupLeft, extraPairs         int64
	listOnly, outOfScope                                int64
	stageReject, stageCalls, stageEntry                 int64
}

func TestVerifC08(t *testing.T) {
	res := vx.New("(pattern, package) pairs: patterns = every pattern.MustParse literal of the checks (harvested from the current source) and every term of a sorted pattern grammar up to a depth/weight bound with symbol names of a generated library and builtins; packages = one generated client package per call/reference form, hand-written std forms, and the checks' own testdata packages. For each pair the (node, bindings) set of the real code.Matches is compared with brute-force pattern.Match on every nameable node. Non-trivial: the brute force finds at least one match")
	defer res.Write()
	t0 := time.Now()
	res.SetBudget(vx.Budget(80*time.Second, 15*time.Minute))

	if _, raw, ok := vx.Replay(); ok {
		c8Replay(t, res, raw)
		return
	}

	// ---- patterns
	harv, unresolved, err := c8Harvest()
	if err != nil {
		res.NotExhaustive("harvest failed: " + err.Error())
		return
	}
	for _, u := range unresolved {
		res.Note("pattern.MustParse argument at %s is not a string constant; not harvested", u)
		res.NotExhaustive("a compiled pattern could not be harvested")
	}
	var hpats []*c8Pat
	byText := map[string]*c8Pat{}
	checkSet := map[string]bool{}
	for _, h := range harv {
		if h.Check != "analysis/code" && !strings.HasPrefix(h.Check, "pattern") {
			checkSet[h.Check] = true
		}
		if p, ok := byText[h.Text]; ok {
			p.Checks = append(p.Checks, h.Check)
			continue
		}
		p, err := c8NewPat(h.Text, "harvest:"+h.Where)
		if err != nil {
			res.Note("harvested pattern at %s does not parse: %v", h.Where, err)
			res.NotExhaustive("a compiled pattern does not parse")
			continue
		}
		p.Checks = []string{h.Check}
		byText[h.Text] = p
		hpats = append(hpats, p)
	}
	res.Count("patterns_harvested_literals", int64(len(harv)))
	res.Count("patterns_harvested_distinct", int64(len(hpats)))

	lib := c8Mod + "/lib."
	symsQ := []string{lib + "F", "(" + lib + "T).VM", "(*" + lib + "T).PM", "(" + lib + "I).IM", lib + "N", lib + "T", lib + "V", lib + "C", lib + "G", "len", "append"}
	symsT := append(append([]string{}, symsQ...), lib+"FV", lib+"G2", "("+lib+"T).IM", lib+"I", c8Mod+"/mid.AN")
	orQ := []string{lib + "F", "(" + lib + "T).VM", lib + "N", "len"}
	orT := append(append([]string{}, orQ...), lib+"G", lib+"V")
	depth := 3
	maxW := vx.Pick(4, 5)
	gtexts := c8Generated(vx.Pick(symsQ, symsT), vx.Pick(orQ, orT), depth, maxW)
	var gpats []string
	for _, s := range gtexts {
		if byText[s] == nil {
			gpats = append(gpats, s)
		}
	}
	var rejected int64
	res.Count("patterns_generated", int64(len(gpats)))
	res.Bound = fmt.Sprintf("generated terms: depth<=%d weight<=%d, %d symbol names; %d harvested patterns", depth, maxW, len(vx.Pick(symsQ, symsT)), len(hpats))

	// ---- packages
	var world []*c8Pkg
	var werr error
	var td []*c8Pkg
	var tdSkipped, tdFailed, tdLoaded int64
	var checkDirs []string
	for c := range checkSet {
		checkDirs = append(checkDirs, c)
	}
	sort.Strings(checkDirs)
	dirs := c8TestdataDirs(checkDirs)
	allDirs := len(dirs)
	if !vx.Thorough() {
		var sample []string
		for i, d := range dirs {
			if i%4 == 0 {
				sample = append(sample, d)
			}
		}
		dirs = sample
	}
	// The testdata directories load in the background (one `go list` each) while the generated module is
	// loaded and its pairs are enumerated; they are waited for before the harvested patterns meet them.
	var wg sync.WaitGroup
	var tdMu sync.Mutex
	sem := make(chan struct{}, max(2, runtime.GOMAXPROCS(0)/2))
	var tdClosed bool // set when the wait for the loads was given up: late results are discarded
	for _, d := range dirs {
		wg.Add(1)
		go func(d string) {
			defer wg.Done()
			sem <- struct{}{}
			defer func() { <-sem }()
			pkgs, skipped, err := c8LoadTestdata(d)
			tdMu.Lock()
			defer tdMu.Unlock()
			if tdClosed {
				return
			}
			tdLoaded++
			if err != nil {
				tdFailed++
				res.Note("testdata %s not loaded: %v", d, err)
				return
			}
			tdSkipped += int64(skipped)
			td = append(td, pkgs...)
		}(d)
	}
	world, werr = c8LoadWorld()
	t.Logf("loaded: generated module, %d packages, %.1fs (%s)", len(world), time.Since(t0).Seconds(), c8WorldTimings)
	if werr != nil {
		wg.Wait()
		res.Note("generated module: %v", werr)
		res.NotExhaustive("the generated module could not be loaded (harness error)")
		return
	}
	res.Count("packages_generated", int64(len(world)))

	// ---- pairs
	col := &c8Collector{per: map[string][]*c8Drop{}, count: map[string]int64{}, keep: 3}
	var st c8Stats
	var sampleMu sync.Mutex
	sampled := map[string]bool{}
	var unassertMu sync.Mutex
	unasserted := map[string]int64{}
	unassertEx := map[string]string{}
	noteUnassert := func(kind, example string) {
		unassertMu.Lock()
		unasserted[kind]++
		if _, ok := unassertEx[kind]; !ok {
			unassertEx[kind] = example
		}
		unassertMu.Unlock()
	}

	doPair := func(p *c8Pat, k *c8Pkg) {
		// Scope of the property: the symbols named by the pattern are not declared in the analysed
		// package. Generated packages are named gen:<dir>; a pattern naming c08/<dir>.X is not run on it.
		if strings.HasPrefix(k.Name, "gen:") && p.namesPkg(k.Name[4:]) {
			atomic.AddInt64(&st.outOfScope, 1)
			return
		}
		o := c8Compare(p, k)
		res.Eval(1)
		atomic.AddInt64(&st.pairs, 1)
		atomic.AddInt64(&st.nodes, int64(len(k.Nodes)))
		atomic.AddInt64(&st.otherPanics, int64(o.otherPanic))
		if o.illFormed {
			atomic.AddInt64(&st.illFormed, 1)
			return
		}
		if o.leftPanic != "" {
			if o.rightPanic != "" {
				noteUnassert("the matcher itself panics on a node of one of the pattern's entry kinds (code.Matches panics as well; not a pre-filter matter)",
					fmt.Sprintf("%s on %s: %s", p.Text, k.Name, o.rightPanic))
				return
			}
			res.Violate("panic|"+c8KeyText(p.Text)+"|"+c8KeyText(k.Name),
				fmt.Sprintf("code.Matches panics for pattern %s on package %s although trying the pattern on every node does not: %s", p.Text, k.Name, o.leftPanic),
				c8Case{p.Text, k.Name})
			return
		}
		if o.rightPanic != "" {
			noteUnassert("the matcher panics on a node of one of the pattern's entry kinds that code.Matches never reached", fmt.Sprintf("%s on %s: %s", p.Text, k.Name, o.rightPanic))
		}
		atomic.AddInt64(&st.leftMatches, int64(o.leftN))
		atomic.AddInt64(&st.rightMatches, int64(o.rightN))
		if o.rightN > 0 {
			atomic.AddInt64(&st.nontrivial, 1)
			res.NontrivialN(1)
			// which pre-filter path served this non-trivial pair
			if len(p.Pat.RootCallSymbols) != 0 {
				atomic.AddInt64(&st.stageCalls, 1)
			} else {
				atomic.AddInt64(&st.stageEntry, 1)
			}
			sampleMu.Lock()
			kind := p.Src[:3] + "/" + k.Name[:3] + fmt.Sprint(len(p.Pat.RootCallSymbols) != 0)
			if !sampled[kind] && len(o.missing) == 0 {
				sampled[kind] = true
				res.Sample(map[string]any{"pattern": strings.Join(strings.Fields(p.Text), " "), "source": p.Src, "package": k.Name,
					"nodes_tried": len(k.Nodes), "brute_force_matches": o.rightN, "code_Matches_results": o.leftN,
					"root_call_symbols": len(p.Pat.RootCallSymbols), "entry_kinds": len(p.Pat.EntryNodes)})
			}
			sampleMu.Unlock()
		}
		if o.leftDup > 0 {
			atomic.AddInt64(&st.dupLeft, 1)
			noteUnassert("code.Matches yields the same (node, bindings) more than once (results are compared as sets)", p.Text+" on "+k.Name)
		}
		if o.listOnly > 0 {
			atomic.AddInt64(&st.listOnly, 1)
		}
		if len(o.extra) > 0 {
			atomic.AddInt64(&st.extraPairs, 1)
			noteUnassert("code.Matches yields a result the brute force does not produce (cannot be caused by dropping; not asserted)", p.Text+" on "+k.Name+": "+o.extra[0])
		}
		if len(o.missing) > 0 && p.unassertOnly != "" {
			noteUnassert(p.unassertOnly, fmt.Sprintf("%s on %s: %s (withheld by %s)", p.Text, k.Name, o.missing[0], c8Stage(p, k.Pass)))
		} else if len(o.missing) > 0 {
			stage := c8Stage(p, k.Pass)
			col.add(&c8Drop{sig: p.Src[:3] + "/" + stage + "/" + c8RootKind(p.Pat.Root) + "/" + o.missWhat, pat: p, pkg: k.Name, stage: stage, missing: o.missing})
		} else if o.rightN == 0 {
			if stage := c8Stage(p, k.Pass); stage == "symbol-index" {
				atomic.AddInt64(&st.stageReject, 1)
			}
		}
	}

	// runStage: patterns are taken in order (weight order for the generated ones) by a pool of workers;
	// get(i) parses pattern i (nil: the parser refuses the term, which then is not a pattern).
	runStage := func(name string, budgeted bool, n int, get func(i int) *c8Pat, pkgs []*c8Pkg) {
		var next int64 = -1
		var done int64
		var ww sync.WaitGroup
		for w := 0; w < runtime.GOMAXPROCS(0); w++ {
			ww.Add(1)
			go func() {
				defer ww.Done()
				for {
					i := int(atomic.AddInt64(&next, 1))
					if i >= n || (budgeted && res.Expired()) {
						return
					}
					if p := get(i); p != nil {
						for _, k := range pkgs {
							doPair(p, k)
						}
					}
					atomic.AddInt64(&done, 1)
				}
			}()
		}
		ww.Wait()
		res.Count("patterns_completed_"+name, done)
		if int(done) < n {
			res.NotExhaustive(fmt.Sprintf("budget reached in stage %s: %d of %d patterns (enumerated in order of weight)", name, done, n))
		}
	}
	runStage("harvested_on_generated_packages", false, len(hpats), func(i int) *c8Pat { return hpats[i] }, world)
	t.Logf("harvested x generated packages done at %.1fs", time.Since(t0).Seconds())
	runStage("generated", true, len(gpats), func(i int) *c8Pat {
		p, err := c8NewPat(gpats[i], "gen")
		if err != nil {
			if atomic.AddInt64(&rejected, 1) <= 3 {
				res.Note("generated term refused by the parser (not a pattern, skipped): %s: %v", gpats[i], err)
			}
			return nil
		}
		return p
	}, world)
	res.Count("patterns_generated_refused_by_parser", rejected)
	t.Logf("generated stage done at %.1fs", time.Since(t0).Seconds())
	// Outside the quantifier (the property lists func, methods, interface method, type name, var/const,
	// generic func): the method of an instantiated generic type, which Symbol names by its instantiated
	// receiver. Enumerated, reported as unasserted.
	var xpats []*c8Pat
	for _, s := range []string{`(Symbol "(*c08/lib.Box[int]).Get")`, `(CallExpr (Symbol "(*c08/lib.Box[int]).Get") _)`, `(AssignStmt _ _ (CallExpr (Symbol "(*c08/lib.Box[int]).Get") _))`} {
		if p, err := c8NewPat(s, "gen"); err == nil {
			p.unassertOnly = "symbol naming a method of an instantiated generic type (matched by Symbol under the instantiated receiver's name; the symbol index looks up the literal type name): matches dropped"
			xpats = append(xpats, p)
		}
	}
	runStage("extra_unasserted", false, len(xpats), func(i int) *c8Pat { return xpats[i] }, world)

	// Wait for the background loads: to the end of the budget, at least 20 s (quick) / 5 min (thorough).
	loadsDone := make(chan struct{})
	go func() { wg.Wait(); close(loadsDone) }()
	grace := vx.Pick(20*time.Second, 5*time.Minute)
	if rem := vx.Budget(80*time.Second, 15*time.Minute) - time.Since(t0); rem > grace {
		grace = rem
	}
	select {
	case <-loadsDone:
	case <-time.After(grace):
	}
	tdMu.Lock()
	tdClosed = true
	if late := int64(len(dirs)) - tdLoaded; late > 0 {
		tdFailed += late
		res.Note("%d testdata directories were still loading when the budget ended (busy machine); not waited for", late)
	}
	tdMu.Unlock()
	sort.Slice(td, func(i, j int) bool { return td[i].Name < td[j].Name })
	t.Logf("testdata loaded: %d packages (%d dirs) at %.1fs", len(td), len(dirs), time.Since(t0).Seconds())
	res.Count("packages_testdata", int64(len(td)))
	res.Count("testdata_dirs_loaded", int64(len(dirs))-tdFailed)
	res.Count("testdata_dirs_of_pattern_owning_checks", int64(allDirs))
	res.Count("testdata_packages_skipped_type_errors", tdSkipped)
	if tdFailed > 0 {
		res.NotExhaustive(fmt.Sprintf("%d testdata directories not loaded", tdFailed))
	}
	if !vx.Thorough() && allDirs > len(dirs) {
		res.Note("quick tier: %d of %d testdata directories (every 4th); the thorough tier loads all", len(dirs), allDirs)
	}
	runStage("harvested_on_testdata_packages", false, len(hpats), func(i int) *c8Pat { return hpats[i] }, td)
	t.Logf("harvested x testdata done at %.1fs", time.Since(t0).Seconds())

	// ---- report
	res.States = st.pairs
	res.Transitions = st.nodes
	res.Validated = st.pairs - st.illFormed
	res.Count("pairs", st.pairs)
	res.Count("pairs_nontrivial", st.nontrivial)
	res.Count("pairs_nontrivial_served_by_root_call_sites", st.stageCalls)
	res.Count("pairs_nontrivial_served_by_entry_kinds", st.stageEntry)
	res.Count("pairs_rejected_by_symbol_index_with_no_brute_force_match", st.stageReject)
	res.Count("brute_force_matches", st.rightMatches)
	res.Count("code_Matches_results", st.leftMatches)
	res.Count("pairs_skipped_pattern_binds_a_name_twice", st.illFormed)
	res.Count("panics_on_node_kinds_never_offered_counted_as_no_match", st.otherPanics)
	res.Count("pairs_with_duplicate_results", st.dupLeft)
	res.Count("pairs_with_extra_results", st.extraPairs)
	res.Count("pairs_not_run_symbol_declared_in_analysed_package", st.outOfScope)
	res.Count("pairs_with_unasserted_BlockStmt_FieldList_matches", st.listOnly)
	if st.listOnly > 0 {
		res.Unassert(fmt.Sprintf("brute-force matches on BlockStmt/FieldList nodes for patterns whose root is not a List (the only element's match seen through the list, or a catch-all root on a node kind the language cannot name) are not yielded by code.Matches: %d pairs; not asserted", st.listOnly))
	}
	var kinds []string
	for k := range unasserted {
		kinds = append(kinds, k)
	}
	sort.Strings(kinds)
	for _, k := range kinds {
		res.Unassert(fmt.Sprintf("%s: %d pairs, e.g. %s", k, unasserted[k], unassertEx[k]))
	}
	var sigs []string
	for s := range col.per {
		sigs = append(sigs, s)
	}
	sort.Strings(sigs)
	for _, s := range sigs {
		res.Count("dropped:"+s, col.count[s])
		for _, d := range col.per[s] {
			res.Violate(c8DropKey(d.pat.Text, d.pkg), c8DropMessage(d)+fmt.Sprintf(" [%d pairs with signature %s in this run]", col.count[s], s), c8Case{d.pat.Text, d.pkg})
		}
	}
}

func c8Replay(t *testing.T, res *vx.Result, raw json.RawMessage) {
	var c c8Case
	if err := json.Unmarshal(raw, &c); err != nil {
		res.NotExhaustive("replay file: " + err.Error())
		return
	}
	p, err := c8NewPat(c.Pattern, "replay")
	if err != nil {
		res.NotExhaustive("replay: pattern does not parse: " + err.Error())
		return
	}
	var pkgs []*c8Pkg
	if strings.HasPrefix(c.Pkg, "gen:") {
		pkgs, err = c8LoadWorld()
	} else if parts := strings.SplitN(c.Pkg, ":", 3); len(parts) == 3 && parts[0] == "td" {
		pkgs, _, err = c8LoadTestdata(parts[1])
	} else {
		err = fmt.Errorf("unknown package name %q", c.Pkg)
	}
	if err != nil {
		res.NotExhaustive("replay: " + err.Error())
		return
	}
	for _, k := range pkgs {
		if k.Name != c.Pkg {
			continue
		}
		o := c8Compare(p, k)
		res.Eval(1)
		res.States, res.Transitions, res.Validated = 1, int64(len(k.Nodes)), 1
		if o.rightN > 0 {
			res.NontrivialN(1)
		}
		t.Logf("pattern %s on %s: brute force %d, code.Matches %d, missing %v, extra %v, leftPanic %q", c.Pattern, c.Pkg, o.rightN, o.leftN, o.missing, o.extra, o.leftPanic)
		if o.leftPanic != "" && o.rightPanic == "" && !o.illFormed {
			res.Violate("panic|"+c8KeyText(p.Text)+"|"+c8KeyText(k.Name), "code.Matches panics: "+o.leftPanic, c)
		}
		if len(o.missing) > 0 {
			stage := c8Stage(p, k.Pass)
			res.Violate(c8DropKey(c.Pattern, c.Pkg), c8DropMessage(&c8Drop{pat: p, pkg: k.Name, stage: stage, missing: o.missing}), c)
		}
		return
	}
	res.NotExhaustive("replay: package " + c.Pkg + " not found")
}
