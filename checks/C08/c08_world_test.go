//go:build verif

package code_test

// C08, part 1: the packages. A generated module, type-checked in-process (library `c08/lib` that declares the symbols,
// `c08/mid` that re-exports them through aliases / embedding / constructors, and one client package
// per call or reference form of the property), the hand-written std-library forms, the loader for the
// repository's own testdata packages (loaded the way analysis/lint/testutil does), and the small
// in-process driver that runs inspect + typeindex and hands the resulting *analysis.Pass to a probe.

import (
	"fmt"
	"go/ast"
	"go/importer"
	"go/parser"
	"go/token"
	"go/types"
	"os"
	"os/exec"
	"path/filepath"
	"reflect"
	"sort"
	"strings"
	"sync"
	"time"

	"golang.org/x/tools/go/analysis"
	"golang.org/x/tools/go/packages"

	"honnef.co/go/tools/analysis/code"
	"honnef.co/go/tools/internal/verifx/vx"
)

const c8LibSrc = `package lib

type T struct{ N int }

func (t T) VM(x int) int  { return x + t.N }
func (t *T) PM(x int) int { return x + t.N }
func (t T) IM(x int) int  { return x }

type I interface{ IM(x int) int }

type N int

func (n N) NM() int { return int(n) }

var V int
var FV = F

const C = 1

func F(x int) int { return x }

func G[P any](x P) P { return x }

func G2[P, Q any](x P, y Q) P { return x }

type Box[P any] struct{ X P }

func (b *Box[P]) Get() P { return b.X }
`

const c8MidSrc = `package mid

import "c08/lib"

type A = lib.T
type AN = lib.N
type AI = lib.I
type AB = lib.Box[int]

type E struct{ lib.T }
type EP struct{ *lib.T }
type J interface{ lib.I }

func NewT() lib.T           { return lib.T{} }
func NewI() lib.I           { return lib.T{} }
func NewBox() *lib.Box[int] { return &lib.Box[int]{} }

// second-layer material for the alias chains (mid2, mid3)
type AP = *lib.T
type AS = []lib.N
type GA[P any] = lib.Box[P]

var FV2 = lib.FV
`

// c8Mid2Src / c8Mid3Src: aliases of aliases. A package that names lib's types only through mid2 or mid3
// reaches them through a chain of two or three aliases declared in other packages.
const c8Mid2Src = `package mid2

import "c08/mid"

type A2 = mid.A
type AN2 = mid.AN
type AI2 = mid.AI
type AP2 = mid.AP
type AS2 = mid.AS
type PA2 = *mid.A
type GA2[P any] = mid.GA[P]
type GAi2 = mid.GA[int]

type E2 struct{ mid.A }

func NewN() AN2 { return 0 }
`

const c8Mid3Src = `package mid3

import "c08/mid2"

type A3 = mid2.A2
type AN3 = mid2.AN2
type AI3 = mid2.AI2
`

const c8StdMid2Src = `package stdmid2

import "c08/stdmid"

type SS2 = stdmid.SS
`

// c8AliasChainClients: the family "a symbol reached through chains of 2 and 3 aliases across packages":
// {chain length 2, 3} x {non-struct type converted, struct type in a composite literal, struct type
// converted} x {type's package imported or not} x {a method/field of the result used or not}, plus the
// edge forms (parenthesised, self-assignment, declaration only, dot import, interface alias, alias of a
// pointer / slice type of the named type, generic aliases, local alias on top of a foreign one, embedding
// through an alias, value obtained without naming the type, re-exported function-typed variable).
func c8AliasChainClients() []c8Client {
	var out []c8Client
	for k := 2; k <= 3; k++ {
		pk := fmt.Sprintf("mid%d", k)
		an := fmt.Sprintf("%s.AN%d", pk, k)
		a := fmt.Sprintf("%s.A%d", pk, k)
		for _, imp := range []bool{false, true} {
			for _, use := range []bool{false, true} {
				suffix := fmt.Sprint(k)
				imps, tail := pk, ""
				if imp {
					suffix += "_imp"
					imps += " lib"
					tail = "; _ = lib.C"
				}
				opt := func(s string) string {
					if use {
						return s
					}
					return ""
				}
				if use {
					suffix += "_use"
				}
				out = append(out,
					c8Client{"ac_n_conv" + suffix, imps, "", "x := " + an + "(1); _ = x" + opt("; _ = x.NM()") + tail},
					c8Client{"ac_t_lit" + suffix, imps, "", "t := " + a + "{}; _ = t" + opt("; _ = t.N") + tail},
					c8Client{"ac_t_conv" + suffix, imps, "", "var t " + a + "; _ = " + a + "(t)" + opt("; _ = t.VM(1)") + tail},
				)
			}
		}
	}
	out = append(out,
		c8Client{"ac_paren2", "mid2", "", "_ = (mid2.AN2)(1); _ = ((mid2.A2))(mid2.A2{})"},
		c8Client{"ac_assign2", "mid2", "", "var x mid2.AN2; x = mid2.AN2(x); _ = x"},
		c8Client{"ac_assign3", "mid3", "", "var x mid3.AN3; x = mid3.AN3(x); _ = x"},
		c8Client{"ac_var3", "mid3", "", "var x mid3.A3; _ = x; var p *mid3.A3; _ = p"},
		c8Client{"ac_dot2", ".=mid2", "", "_ = AN2(1); _ = A2{}"},
		c8Client{"ac_iface2", "mid2", "", "var i mid2.AI2; _ = i; _ = mid2.AI2(nil)"},
		c8Client{"ac_iface2_use", "mid2", "", "var i mid2.AI2; _ = i.IM(1)"},
		c8Client{"ac_iface3", "mid3", "", "var i mid3.AI3; _ = i"},
		c8Client{"ac_ptr2", "mid2", "", "var p mid2.AP2; _ = p; _ = mid2.AP2(nil); var q mid2.PA2; _ = q"},
		c8Client{"ac_slice2", "mid2", "", "_ = mid2.AS2(nil); _ = mid2.AS2{1}"},
		c8Client{"ac_generic", "mid mid2", "", "_ = mid.GA[int]{}; var g mid2.GA2[int]; _ = g; _ = mid2.GAi2{}"},
		c8Client{"ac_generic_use", "mid2", "", "g := &mid2.GA2[int]{}; _ = g.Get()"},
		c8Client{"ac_local", "mid", "type L1 = mid.AN\ntype L2 = L1", "_ = L2(1); _ = L1(2)"},
		c8Client{"ac_embed2", "mid2", "", "var e mid2.E2; _ = e"},
		c8Client{"ac_embed2_use", "mid2", "", "var e mid2.E2; _ = e.VM(1)"},
		c8Client{"ac_ret2", "mid2", "", "x := mid2.NewN(); _ = x"},
		c8Client{"fv_reexport", "mid", "", "_ = mid.FV2(1); _ = (mid.FV2)(2)"},
		c8Client{"std_alias2", "stdmid2", "", "var xs []string; xs = stdmid2.SS2(xs); _ = xs"},
	)
	return out
}

// c8Client is one analysed package of the generated module: the imports, optional package-level
// declarations, and the statements of `func run(s []int, a, b int)`.
type c8Client struct {
	name  string
	imps  string // space separated: lib mid l=lib .=lib _=lib plus std paths
	decls string
	body  string
}

var c8Clients = []c8Client{
	// negative / filler
	{"none", "", "", "a = a + b; a, b = b, a; _ = a - 1"},
	{"blank", "_=lib", "", "_ = a + b"},
	{"shadow", "", "func F(x int) int { return x }", "_ = F(1); _ = (F)(2)"},
	{"variadic", "", "func v(xs ...int) int { return len(xs) }", "_ = v(s...); _ = [...]int{1, 2}"},
	// function
	{"f_plain", "lib", "", "_ = lib.F(1)"},
	{"f_stmt", "lib", "", "lib.F(1)"},
	{"f_paren", "lib", "", "_ = (lib.F)(1); _ = ((lib.F))(2)"},
	{"f_renamed", "l=lib", "", "_ = l.F(1)"},
	{"f_dot", ".=lib", "", "_ = F(1); _ = (F)(2)"},
	{"f_value", "lib", "", "g := lib.F; _ = g(1)"},
	{"f_ref", "lib", "", "_ = lib.F"},
	{"f_arg", "lib", "func h(func(int) int, int) {}", "_ = lib.F(lib.F(2)); h(lib.F, lib.F(3))"},
	{"f_defer_go", "lib", "", "defer lib.F(1); go lib.F(2)"},
	{"f_binary", "lib", "", "_ = lib.F(1) + lib.F(2); a = lib.F(a); a, b = lib.F(1), lib.F(b)"},
	{"f_label", "lib", "", "L: lib.F(1); if a > 0 { goto L }"},
	// generic functions
	{"g_explicit", "lib", "", "_ = lib.G[int](1)"},
	{"g_inferred", "lib", "", "_ = lib.G(1)"},
	{"g_paren", "lib", "", "_ = (lib.G[int])(1); _ = ((lib.G[int]))(2)"},
	{"g_value", "lib", "", "g := lib.G[int]; _ = g(1)"},
	{"g_dot", ".=lib", "", "_ = G[int](1); _ = G(2)"},
	{"g_ref", "lib", "", "_ = lib.G[int]"},
	{"g2_explicit", "lib", "", `_ = lib.G2[int, string](1, "")`},
	{"g2_partial", "lib", "", `_ = lib.G2[int](1, ""); _ = lib.G2(1, "")`},
	// method with value receiver
	{"vm_plain", "lib", "", "var t lib.T; _ = t.VM(1)"},
	{"vm_paren", "lib", "", "var t lib.T; _ = (t.VM)(1)"},
	{"vm_value", "lib", "", "var t lib.T; m := t.VM; _ = m(1)"},
	{"vm_expr", "lib", "", "var t lib.T; _ = lib.T.VM(t, 1); _ = (lib.T).VM(t, 2)"},
	{"vm_ptr", "lib", "", "var t lib.T; p := &t; _ = p.VM(1); _ = (*lib.T).VM(p, 2)"},
	{"vm_alias", "mid", "", "var t mid.A; _ = t.VM(1)"},
	{"vm_alias_expr", "mid", "", "var t mid.A; _ = mid.A.VM(t, 1)"},
	{"vm_embedded", "mid", "", "var e mid.E; _ = e.VM(1)"},
	{"vm_embedded_local", "lib", "type L struct{ lib.T }", "var l L; _ = l.VM(1)"},
	{"vm_ret", "mid", "", "_ = mid.NewT().VM(1)"},
	{"vm_ref", "lib", "", "var t lib.T; _ = t.VM; _ = lib.T.VM"},
	// method with pointer receiver
	{"pm_plain", "lib", "", "var t lib.T; _ = t.PM(1)"},
	{"pm_ptr", "lib", "", "var t lib.T; _ = (&t).PM(1)"},
	{"pm_expr", "lib", "", "var t lib.T; _ = (*lib.T).PM(&t, 1)"},
	{"pm_embedded", "mid", "", "var e mid.EP; _ = e.PM(1); var e2 mid.E; _ = e2.PM(2)"},
	{"pm_alias", "mid", "", "var t mid.A; _ = t.PM(1)"},
	// interface method
	{"im_plain", "lib", "", "var i lib.I; _ = i.IM(1)"},
	{"im_expr", "lib", "", "var i lib.I; _ = lib.I.IM(i, 1)"},
	{"im_embedded", "mid", "", "var j mid.J; _ = j.IM(1)"},
	{"im_embedded_local", "lib", "type K interface{ lib.I }", "var k K; _ = k.IM(1)"},
	{"im_ret", "mid", "", "_ = mid.NewI().IM(1)"},
	{"im_value", "lib", "", "var i lib.I; m := i.IM; _ = m(1)"},
	{"im_alias", "mid", "", "var i mid.AI; _ = i.IM(1)"},
	{"im_concrete", "lib", "", "var t lib.T; _ = t.IM(1)"},
	// type name: conversions and other references
	{"n_conv", "lib", "", "_ = lib.N(1)"},
	{"n_paren", "lib", "", "_ = (lib.N)(1)"},
	{"n_var", "lib", "", "var n lib.N; _ = n"},
	{"n_alias", "mid", "", "_ = mid.AN(1)"},
	{"n_dot", ".=lib", "", "_ = N(1)"},
	{"n_renamed", "l=lib", "", "_ = l.N(1)"},
	{"n_assign", "lib", "", "var x lib.N; x = lib.N(x); _ = x"},
	{"n_alias_assign", "mid", "", "var x mid.AN; x = mid.AN(x); _ = x"},
	{"n_local_alias", "lib", "type LN = lib.N", "_ = LN(1)"},
	{"t_lit", "lib", "", "_ = lib.T{}; _ = lib.T{N: 1}"},
	{"t_conv", "lib", "", "var t lib.T; _ = lib.T(t)"},
	{"t_ptr", "lib", "", "var p *lib.T; _ = p"},
	{"t_alias", "mid", "", "_ = mid.A{}; var t mid.A; _ = mid.A(t)"},
	{"t_local_alias", "lib", "type LA = lib.T", "_ = LA{}"},
	{"i_ref", "lib", "", "var i lib.I; _ = i; _ = lib.I(nil)"},
	// package-level variable, constant, func-typed variable
	{"v_read", "lib", "", "_ = lib.V + 1"},
	{"v_write", "lib", "", "lib.V = 2; lib.V += a"},
	{"v_dot", ".=lib", "", "V = 3; _ = V"},
	{"v_addr", "lib", "", "_ = &lib.V"},
	{"fv_call", "lib", "", "_ = lib.FV(1); _ = (lib.FV)(2)"},
	{"c_ref", "lib", "", "_ = lib.C; _ = lib.C + a"},
	{"c_dot", ".=lib", "", "_ = C"},
	// method of a generic type
	{"box_call", "lib", "", "bx := &lib.Box[int]{}; _ = bx.Get()"},
	{"box_expr", "lib", "", "bx := &lib.Box[int]{}; _ = (*lib.Box[int]).Get(bx)"},
	{"box_ret", "mid", "", "_ = mid.NewBox().Get()"},
	{"box_alias", "mid", "", "var ab mid.AB; _ = ab.Get()"},
	// builtins
	{"bi_len", "", "", "_ = len(s); _ = (len)(s)"},
	{"bi_append", "", "", "s = append(s, 1); _ = append(s, a, b)"},
	{"bi_shadow", "", "", "len := func([]int) int { return 0 }; _ = len(s)"},
	{"bi_mixed", "lib", "", "_ = lib.F(len(s)); s = append(s, lib.F(1))"},
	// several at once
	{"all", "lib mid", "type L struct{ lib.T }",
		`var t lib.T; var i lib.I; var e mid.E; var l L
	_ = lib.F(1); _ = (lib.F)(2); _ = lib.G[int](1); _ = lib.G(2)
	_ = t.VM(1); _ = t.PM(1); _ = i.IM(1); _ = e.VM(2); _ = l.PM(3)
	_ = lib.N(1); _ = mid.AN(2); _ = lib.T{}; _ = mid.A{}
	lib.V = lib.C; _ = lib.FV(1); _ = len(s); s = append(s, a+b)`},
}

// c8StdClients: hand-written packages that reference std symbols named by the compiled patterns in the
// forms of the property (so the harvested patterns meet parenthesised callees, renamed and dot imports
// and alias-only references, which the testdata packages rarely contain).
var c8StdMid = `package stdmid

import (
	"sort"
	"sync"
	"time"
)

type SS = sort.StringSlice
type TT = time.Time
type WG = sync.WaitGroup
type EWG struct{ sync.WaitGroup }

func Now() time.Time { return time.Now() }
`

var c8StdClients = []c8Client{
	{"std_plain", "fmt time strings errors sort",
		"", `_ = fmt.Sprintf("%d", a); _ = time.Now(); _ = strings.ToLower("x") == strings.ToLower("y"); _ = errors.New(fmt.Sprintf("%d", a))
	var xs []string; xs = sort.StringSlice(xs); _ = xs; time.Sleep(1)`},
	{"std_paren", "fmt time errors",
		"", `_ = (fmt.Sprintf)("%d", a); _ = (time.Now)(); _ = (errors.New)((fmt.Sprintf)("%d", a)); (time.Sleep)(1)`},
	{"std_renamed", "f=fmt t=time e=errors",
		"", `_ = f.Sprintf("%d", a); _ = t.Now(); _ = e.New(f.Sprintf("%d", a)); t.Sleep(1)`},
	{"std_dot", ".=fmt .=time .=errors",
		"", `_ = Sprintf("%d", a); _ = Now(); _ = New(Sprintf("%d", a)); Sleep(1)`},
	{"std_method", "time sync",
		"", `var t1, t2 time.Time; _ = t1.Sub(t2); _ = time.Time.Sub(t1, t2); _ = time.Now().Sub(t1); var wg sync.WaitGroup; go func() { wg.Add(1) }()`},
	{"std_alias", "stdmid",
		"", `var xs []string; xs = stdmid.SS(xs); _ = xs; var t1 stdmid.TT; _ = stdmid.Now().Sub(t1); var wg stdmid.WG; go func() { wg.Add(1) }(); var e stdmid.EWG; go func() { e.Add(1) }()`},
	{"std_value", "fmt time",
		"", `sp := fmt.Sprintf; _ = sp("%d", a); now := time.Now; _ = now()`},
}

func c8ClientSource(c c8Client, modpath string) string {
	var sb strings.Builder
	fmt.Fprintf(&sb, "package %s\n\n", c.name)
	for _, im := range strings.Fields(c.imps) {
		name, path, ok := strings.Cut(im, "=")
		if !ok {
			name, path = "", im
		}
		switch path {
		case "lib", "mid", "mid2", "mid3", "stdmid", "stdmid2":
			path = modpath + "/" + path
		}
		if name != "" {
			fmt.Fprintf(&sb, "import %s %q\n", name, path)
		} else {
			fmt.Fprintf(&sb, "import %q\n", path)
		}
	}
	if c.decls != "" {
		sb.WriteString("\n" + c.decls + "\n")
	}
	sb.WriteString("\nfunc run(s []int, a, b int) {\n\t" + strings.ReplaceAll(c.body, "; ", "\n\t") + "\n\t_, _, _ = s, a, b\n}\n")
	return sb.String()
}

// c8Pkg is one analysed package: the pass the probe analyzer received and every syntax node of a kind
// the pattern language can name.
type c8Pkg struct {
	Name  string
	Pass  *analysis.Pass
	Nodes []ast.Node
}

// Node kinds the pattern language can name: the AST counterparts of the parser's node names
// (pattern.structNodes), plus BlockStmt and FieldList which (List …) stands for. ParenExpr, ExprStmt,
// DeclStmt and LabeledStmt are the transparent wrappers: Match on one of them is by construction Match
// on its child, which is visited as well, so they are identified with the child by skipping them.
var c8Nameable = map[reflect.Type]bool{}

func init() {
	for _, n := range []ast.Node{
		(*ast.RangeStmt)(nil), (*ast.AssignStmt)(nil), (*ast.IndexExpr)(nil), (*ast.Ident)(nil), (*ast.ValueSpec)(nil),
		(*ast.GenDecl)(nil), (*ast.BinaryExpr)(nil), (*ast.ForStmt)(nil), (*ast.ArrayType)(nil), (*ast.DeferStmt)(nil),
		(*ast.MapType)(nil), (*ast.ReturnStmt)(nil), (*ast.SliceExpr)(nil), (*ast.StarExpr)(nil), (*ast.UnaryExpr)(nil),
		(*ast.SendStmt)(nil), (*ast.SelectStmt)(nil), (*ast.ImportSpec)(nil), (*ast.IfStmt)(nil), (*ast.GoStmt)(nil),
		(*ast.Field)(nil), (*ast.SelectorExpr)(nil), (*ast.StructType)(nil), (*ast.KeyValueExpr)(nil), (*ast.FuncType)(nil),
		(*ast.FuncLit)(nil), (*ast.FuncDecl)(nil), (*ast.ChanType)(nil), (*ast.CallExpr)(nil), (*ast.CaseClause)(nil),
		(*ast.CommClause)(nil), (*ast.CompositeLit)(nil), (*ast.EmptyStmt)(nil), (*ast.SwitchStmt)(nil),
		(*ast.TypeSwitchStmt)(nil), (*ast.TypeAssertExpr)(nil), (*ast.TypeSpec)(nil), (*ast.InterfaceType)(nil),
		(*ast.BranchStmt)(nil), (*ast.IncDecStmt)(nil), (*ast.BasicLit)(nil), (*ast.Ellipsis)(nil),
		(*ast.IndexListExpr)(nil), // pattern.IndexListExpr: a Node of the language (Symbol matches through it)
		(*ast.BlockStmt)(nil), (*ast.FieldList)(nil),
	} {
		c8Nameable[reflect.TypeOf(n)] = true
	}
}

func c8CollectNodes(files []*ast.File) []ast.Node {
	var out []ast.Node
	for _, f := range files {
		ast.Inspect(f, func(n ast.Node) bool {
			if n == nil {
				return true
			}
			if c8Nameable[reflect.TypeOf(n)] {
				out = append(out, n)
			}
			return true
		})
	}
	return out
}

// c8BuildPass runs the analyzers code.Matches requires (and theirs) on a type-checked package and
// returns the pass given to a probe analyzer whose Requires are exactly code.RequiredAnalyzers.
func c8BuildPass(pkg *packages.Package) (*analysis.Pass, error) {
	results := map[*analysis.Analyzer]any{}
	var probePass *analysis.Pass
	probe := &analysis.Analyzer{
		Name:     "c08probe",
		Doc:      "receives the pass code.Matches is called with",
		Requires: code.RequiredAnalyzers,
		Run: func(pass *analysis.Pass) (any, error) {
			probePass = pass
			return nil, nil
		},
	}
	var run func(a *analysis.Analyzer) error
	run = func(a *analysis.Analyzer) error {
		if _, ok := results[a]; ok {
			return nil
		}
		resOf := map[*analysis.Analyzer]any{}
		for _, req := range a.Requires {
			if err := run(req); err != nil {
				return err
			}
			resOf[req] = results[req]
		}
		pass := &analysis.Pass{
			Analyzer:   a,
			Fset:       pkg.Fset,
			Files:      pkg.Syntax,
			Pkg:        pkg.Types,
			TypesInfo:  pkg.TypesInfo,
			TypesSizes: pkg.TypesSizes,
			ResultOf:   resOf,
			Report:     func(analysis.Diagnostic) {},
			ReadFile:   os.ReadFile,
		}
		res, err := a.Run(pass)
		if err != nil {
			return fmt.Errorf("analyzer %s: %v", a.Name, err)
		}
		if a.ResultType != nil && res != nil && reflect.TypeOf(res) != a.ResultType {
			return fmt.Errorf("analyzer %s: result %T, declared %v", a.Name, res, a.ResultType)
		}
		results[a] = res
		return nil
	}
	if err := run(probe); err != nil {
		return nil, err
	}
	return probePass, nil
}

// ---------------------------------------------------------------------------------------------
// Loading.

var c8GoEnvOnce sync.Once
var c8GoEnv []string

// c8Env is the environment for go/packages: the toolchain that built the repository first in PATH,
// exactly what `go test` arranges for the repository's own testdata-driven tests.
func c8Env() []string {
	c8GoEnvOnce.Do(func() {
		env := os.Environ()
		cmd := exec.Command("go", "env", "GOROOT")
		cmd.Dir = vx.RepoDir()
		if out, err := cmd.Output(); err == nil {
			if root := strings.TrimSpace(string(out)); root != "" {
				for i, kv := range env {
					if strings.HasPrefix(kv, "PATH=") {
						env[i] = "PATH=" + filepath.Join(root, "bin") + string(os.PathListSeparator) + kv[5:]
					}
				}
				env = append(env, "GOROOT="+root)
			}
		}
		c8GoEnv = append(env, "GOPROXY=off")
	})
	return append([]string(nil), c8GoEnv...)
}

const c8LoadMode = packages.NeedName | packages.NeedFiles | packages.NeedCompiledGoFiles | packages.NeedImports |
	packages.NeedTypes | packages.NeedTypesSizes | packages.NeedSyntax | packages.NeedTypesInfo

const c8Mod = "c08"

type c8ImporterFunc func(path string) (*types.Package, error)

func (f c8ImporterFunc) Import(path string) (*types.Package, error) { return f(path) }

var c8WorldTimings string

// c8LoadWorld type-checks the generated module in-process: the generated packages in dependency order
// (lib, mid, stdmid, then the clients) with go/types, imports among them resolved to the packages just
// checked and the few std imports resolved by the standard "source" importer (std type-checked from
// GOROOT/src). No go command is involved, so the step costs a few CPU seconds even on a busy machine.
// Every package must type-check (anything else is a harness error, reported by the caller as such).
// lib itself is not analysed: it declares the symbols.
func c8LoadWorld() ([]*c8Pkg, error) {
	t0 := time.Now()
	defer func() { c8WorldTimings += fmt.Sprintf(" total=%.1fs", time.Since(t0).Seconds()) }()
	fset := token.NewFileSet()
	std := importer.ForCompiler(fset, "source", nil)
	local := map[string]*types.Package{}
	imp := c8ImporterFunc(func(path string) (*types.Package, error) {
		if p, ok := local[path]; ok {
			return p, nil
		}
		if strings.HasPrefix(path, c8Mod+"/") {
			return nil, fmt.Errorf("generated package %s imported before it was checked", path)
		}
		return std.Import(path)
	})
	sizes := types.SizesFor("gc", "amd64")
	root := filepath.Join(vx.ScratchDir(), "c08world")
	check := func(name, src string) (*packages.Package, error) {
		path := c8Mod + "/" + name
		f, err := parser.ParseFile(fset, filepath.Join(root, name, "x.go"), src, parser.AllErrors|parser.ParseComments)
		if err != nil {
			return nil, fmt.Errorf("generated package %s does not parse: %v", path, err)
		}
		info := &types.Info{
			Types:        map[ast.Expr]types.TypeAndValue{},
			Defs:         map[*ast.Ident]types.Object{},
			Uses:         map[*ast.Ident]types.Object{},
			Implicits:    map[ast.Node]types.Object{},
			Instances:    map[*ast.Ident]types.Instance{},
			Scopes:       map[ast.Node]*types.Scope{},
			Selections:   map[*ast.SelectorExpr]*types.Selection{},
			FileVersions: map[*ast.File]string{},
		}
		conf := types.Config{Importer: imp, GoVersion: "go1.24", Sizes: sizes}
		pkg, err := conf.Check(path, fset, []*ast.File{f}, info)
		if err != nil {
			return nil, fmt.Errorf("generated package %s does not type-check: %v", path, err)
		}
		local[path] = pkg
		return &packages.Package{ID: path, Name: pkg.Name(), PkgPath: path, Fset: fset, Syntax: []*ast.File{f},
			Types: pkg, TypesInfo: info, TypesSizes: sizes}, nil
	}
	var out []*c8Pkg
	add := func(name, src string, analysed bool) error {
		p, err := check(name, src)
		if err != nil {
			return err
		}
		if !analysed {
			return nil
		}
		pass, err := c8BuildPass(p)
		if err != nil {
			return err
		}
		out = append(out, &c8Pkg{Name: "gen:" + name, Pass: pass, Nodes: c8CollectNodes(p.Syntax)})
		return nil
	}
	if err := add("lib", c8LibSrc, false); err != nil {
		return nil, err
	}
	if err := add("mid", c8MidSrc, true); err != nil {
		return nil, err
	}
	if err := add("stdmid", c8StdMid, true); err != nil {
		return nil, err
	}
	for _, m := range [][2]string{{"mid2", c8Mid2Src}, {"mid3", c8Mid3Src}, {"stdmid2", c8StdMid2Src}} {
		if err := add(m[0], m[1], true); err != nil {
			return nil, err
		}
	}
	c8WorldTimings += fmt.Sprintf(" lib+mid+stdmid(std from source)=%.1fs", time.Since(t0).Seconds())
	for _, list := range [][]c8Client{c8Clients, c8StdClients, c8AliasChainClients()} {
		for _, c := range list {
			if err := add(c.name, c8ClientSource(c, c8Mod), true); err != nil {
				return nil, err
			}
		}
	}
	sort.Slice(out, func(i, j int) bool { return out[i].Name < out[j].Name })
	return out, nil
}

// c8TestdataDirs lists <check>/testdata/go1.N below the repository for the given check directories
// (repo-relative), in sorted order.
func c8TestdataDirs(checkDirs []string) []string {
	var out []string
	for _, cd := range checkDirs {
		m, _ := filepath.Glob(filepath.Join(vx.RepoDir(), cd, "testdata", "go1.*"))
		sort.Strings(m)
		for _, d := range m {
			rel, _ := filepath.Rel(vx.RepoDir(), d)
			out = append(out, rel)
		}
	}
	return out
}

// c8LoadTestdata loads one testdata/go1.N directory the way analysis/lint/testutil.Run does (overlaid
// go.mod `module example.com` + `go 1.N`, GOFLAGS=-mod=vendor, tests included). Packages with errors
// are skipped and counted; of a package and its test variant only the variant (a superset) is kept.
func c8LoadTestdata(rel string) (pkgs []*c8Pkg, skipped int, err error) {
	dir := filepath.Join(vx.RepoDir(), rel)
	vers := strings.TrimPrefix(filepath.Base(dir), "go")
	cfg := &packages.Config{
		Mode:  c8LoadMode,
		Dir:   dir,
		Tests: true,
		Env:   append(c8Env(), "GOFLAGS=-mod=vendor", "GO111MODULE="),
		Overlay: map[string][]byte{
			filepath.Join(dir, "go.mod"): []byte("module example.com\ngo " + vers),
		},
	}
	loaded, err := packages.Load(cfg, "./...")
	if err != nil {
		return nil, 0, err
	}
	hasVariant := map[string]bool{}
	for _, p := range loaded {
		if i := strings.Index(p.ID, " ["); i > 0 && p.ID[:i] == p.PkgPath {
			hasVariant[p.PkgPath] = true
		}
	}
	for _, p := range loaded {
		if strings.HasSuffix(p.ID, ".test") || len(p.Syntax) == 0 {
			continue
		}
		if p.ID == p.PkgPath && hasVariant[p.PkgPath] {
			continue
		}
		if len(p.Errors) > 0 || p.IllTyped || p.Types == nil || p.TypesInfo == nil {
			skipped++
			continue
		}
		pass, err := c8BuildPass(p)
		if err != nil {
			return nil, skipped, err
		}
		pkgs = append(pkgs, &c8Pkg{Name: "td:" + rel + ":" + p.ID, Pass: pass, Nodes: c8CollectNodes(p.Syntax)})
	}
	sort.Slice(pkgs, func(i, j int) bool { return pkgs[i].Name < pkgs[j].Name })
	return pkgs, skipped, nil
}
