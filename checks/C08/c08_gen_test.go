//go:build verif

package code_test

// C08, part 2b: generated patterns.
//
// Sorted grammar (E: node position, Y: symbol name, S: identifier name, B: builtin name, T: token,
// L: list position). Depth of an atom is 0; weight = number of constructors + number of atoms other
// than `_`. A binding name is created at most once per pattern and never after another occurrence of
// the same name (doc.go: providing a node to an already bound binding is an error).
//
//	E ::= _ | x | (Not nil) | (Ident S) | (Builtin B) | (Object S) | (Symbol Y) | (SelectorExpr E E)
//	    | (CallExpr E L) | (BinaryExpr E T E) | (AssignStmt L T L) | (Or E E) | (Not E)
//	    | x@E' | (Binding "x" E') | (Binding "y" nil)            E' a constructor term
//	Y ::= _ | "<symbol>" | (Or Y0 Y0) | n@(Or Y0 Y0) | (Not Y0) | (Or Y0 _)   Y0 a symbol string
//	S ::= _ | "F"
//	B ::= _ | "len" | "append"
//	T ::= _ | "="
//	L ::= _ | [] | E' | [E] | (List E _)
//	root ::= E' written with a leading '(' | (List E L0)
//
// All terms of depth <= D and weight <= W are produced, in order of weight, then text.

import (
	"fmt"
	"sort"
	"strconv"
	"strings"
)

type c8Term struct {
	s string
	w int
}

type c8Gen struct {
	syms   []string // symbol names for Y
	orSyms []string // symbol names combined pairwise under Or
	maxW   int
	memo   map[string][]c8Term
}

func c8SortTerms(ts []c8Term) []c8Term {
	sort.SliceStable(ts, func(i, j int) bool {
		if ts[i].w != ts[j].w {
			return ts[i].w < ts[j].w
		}
		return ts[i].s < ts[j].s
	})
	return ts
}

// c8Upto returns the prefix of a weight-sorted list with weight <= w.
func c8Upto(ts []c8Term, w int) []c8Term {
	n := sort.Search(len(ts), func(i int) bool { return ts[i].w > w })
	return ts[:n]
}

func c8Atoms(ss ...string) []c8Term {
	out := make([]c8Term, len(ss))
	for i, s := range ss {
		w := 1
		if s == "_" {
			w = 0
		}
		out[i] = c8Term{s, w}
	}
	return c8SortTerms(out)
}

func c8Quote(ss []string) []string {
	out := make([]string, len(ss))
	for i, s := range ss {
		out[i] = strconv.Quote(s)
	}
	return out
}

func (g *c8Gen) sortY(d int) []c8Term {
	out := c8Atoms(append([]string{"_"}, c8Quote(g.syms)...)...)
	if d >= 1 {
		for i, a := range g.orSyms {
			for j, b := range g.orSyms {
				if i < j {
					out = append(out, c8Term{fmt.Sprintf("(Or %q %q)", a, b), 3})
					out = append(out, c8Term{fmt.Sprintf("n@(Or %q %q)", a, b), 4})
				}
			}
			out = append(out, c8Term{fmt.Sprintf("(Not %q)", a), 2})
			out = append(out, c8Term{fmt.Sprintf("(Or %q _)", a), 2})
		}
	}
	return c8SortTerms(out)
}

func (g *c8Gen) sortS(d int) []c8Term {
	return c8Atoms("_", `"F"`)
}

func (g *c8Gen) sortB(int) []c8Term { return c8Atoms("_", `"len"`, `"append"`) }
func (g *c8Gen) sortT(int) []c8Term { return c8Atoms("_", `"="`) }
func (g *c8Gen) atomsE() []c8Term   { return c8Atoms("_", "x") }

// consE returns the constructor terms of sort E of depth <= d (d >= 1), sorted by weight.
func (g *c8Gen) consE(d int) []c8Term {
	key := fmt.Sprintf("consE%d", d)
	if r, ok := g.memo[key]; ok {
		return r
	}
	var out []c8Term
	W := g.maxW
	add := func(w int, format string, args ...any) {
		s := fmt.Sprintf(format, args...)
		if w <= W && c8BindingOK(s) {
			out = append(out, c8Term{s, w})
		}
	}
	sub := g.sortE(d - 1)
	lst := g.sortL(d - 1)
	tok := g.sortT(d - 1)
	for _, s := range c8Upto(g.sortS(d-1), W-1) {
		add(1+s.w, "(Ident %s)", s.s)
		add(1+s.w, "(Object %s)", s.s)
	}
	for _, b := range c8Upto(g.sortB(d-1), W-1) {
		add(1+b.w, "(Builtin %s)", b.s)
	}
	for _, y := range c8Upto(g.sortY(d-1), W-1) {
		add(1+y.w, "(Symbol %s)", y.s)
	}
	for _, a := range c8Upto(sub, W-1) {
		add(1+a.w, "(Not %s)", a.s)
		for _, b := range c8Upto(sub, W-1-a.w) {
			add(1+a.w+b.w, "(SelectorExpr %s %s)", a.s, b.s)
			add(1+a.w+b.w, "(Or %s %s)", a.s, b.s)
		}
		for _, l := range c8Upto(lst, W-1-a.w) {
			add(1+a.w+l.w, "(CallExpr %s %s)", a.s, l.s)
		}
		for _, t := range c8Upto(tok, W-1-a.w) {
			for _, b := range c8Upto(sub, W-1-a.w-t.w) {
				add(1+a.w+t.w+b.w, "(BinaryExpr %s %s %s)", a.s, t.s, b.s)
			}
		}
	}
	for _, l1 := range c8Upto(lst, W-1) {
		for _, t := range c8Upto(tok, W-1-l1.w) {
			for _, l2 := range c8Upto(lst, W-1-l1.w-t.w) {
				add(1+l1.w+t.w+l2.w, "(AssignStmt %s %s %s)", l1.s, t.s, l2.s)
			}
		}
	}
	if d >= 2 {
		for _, c := range c8Upto(g.consE(d-1), W-1) {
			add(1+c.w, "x@%s", c.s)
			add(1+c.w, `(Binding "x" %s)`, c.s)
		}
	}
	add(2, `(Binding "y" nil)`)
	add(2, `(Not nil)`)
	out = c8SortTerms(out)
	g.memo[key] = out
	return out
}

func (g *c8Gen) sortE(d int) []c8Term {
	key := fmt.Sprintf("E%d", d)
	if r, ok := g.memo[key]; ok {
		return r
	}
	out := append([]c8Term{}, g.atomsE()...)
	if d >= 1 {
		out = append(out, g.consE(d)...)
	}
	out = c8SortTerms(out)
	g.memo[key] = out
	return out
}

func (g *c8Gen) sortL(d int) []c8Term {
	key := fmt.Sprintf("L%d", d)
	if r, ok := g.memo[key]; ok {
		return r
	}
	out := append([]c8Term{}, c8Atoms("_", "[]")...)
	W := g.maxW
	if d >= 1 {
		// a single node in list position, and the list spellings around terms one level down
		out = append(out, g.consE(d)...)
		for _, e := range c8Upto(g.sortE(d-1), W-1) {
			out = append(out, c8Term{"[" + e.s + "]", 1 + e.w})
			out = append(out, c8Term{"(List " + e.s + " _)", 1 + e.w})
		}
	}
	out = c8SortTerms(out)
	g.memo[key] = out
	return out
}

// c8BindingOK reports whether the binding x is given a node (x@…, (Binding "x" …)) at most once and
// never after another occurrence of x in traversal order, and n@ occurs at most once.
func c8BindingOK(s string) bool {
	if strings.Count(s, "n@") > 1 {
		return false
	}
	seen := false
	for i := 0; i < len(s); i++ {
		switch {
		case s[i] == '"':
			// skip the string; (Binding "x" is a creating occurrence
			j := i + 1
			for j < len(s) && s[j] != '"' {
				j++
			}
			if s[i:j+1] == `"x"` && i >= 9 && s[i-9:i] == "(Binding " {
				if seen {
					return false
				}
				seen = true
			}
			i = j
		case s[i] == 'x' && (i == 0 || strings.IndexByte(" ([", s[i-1]) >= 0):
			if i+1 < len(s) && s[i+1] == '@' {
				if seen {
					return false
				}
				seen = true
			} else if i+1 == len(s) || strings.IndexByte(" )]", s[i+1]) >= 0 {
				seen = true
			}
		}
	}
	return true
}

// c8Generated returns the root patterns: constructor terms of sort E up to depth, spelled so that
// the parser accepts them at the root (a leading '('), plus (List E L0) roots; ordered by weight,
// then text.
func c8Generated(syms, orSyms []string, depth, maxW int) []string {
	g := &c8Gen{syms: syms, orSyms: orSyms, maxW: maxW, memo: map[string][]c8Term{}}
	var terms []c8Term
	for _, t := range g.consE(depth) {
		if strings.HasPrefix(t.s, "x@") {
			continue // spelled (Binding "x" …) at the root
		}
		terms = append(terms, t)
	}
	for _, e := range c8Upto(g.sortE(depth-1), maxW-1) {
		for _, l := range c8Upto(c8Atoms("_", "[]"), maxW-1-e.w) {
			s := "(List " + e.s + " " + l.s + ")"
			if c8BindingOK(s) {
				terms = append(terms, c8Term{s, 1 + e.w + l.w})
			}
		}
	}
	terms = c8SortTerms(terms)
	out := make([]string, 0, len(terms))
	var last string
	for _, t := range terms {
		if t.s != last {
			out = append(out, t.s)
		}
		last = t.s
	}
	return out
}
