//go:build verif

package code_test

// C08, part 2: the patterns. (i) Every pattern.MustParse literal of the checks, harvested from the
// CURRENT source of the repository; (ii) all terms of a sorted pattern grammar up to a depth and a
// weight bound, with symbol names drawn from the generated library and the builtins.

import (
	"fmt"
	"go/ast"
	"go/parser"
	"go/token"
	"io/fs"
	"path/filepath"
	"sort"
	"strconv"
	"strings"

	"honnef.co/go/tools/internal/verifx/vx"
)

type c8Harvested struct {
	Text  string
	Where string // repo-relative file:line
	Check string // repo-relative directory of the owning check
}

func c8StringConst(e ast.Expr) (string, bool) {
	switch e := e.(type) {
	case *ast.BasicLit:
		if e.Kind != token.STRING {
			return "", false
		}
		s, err := strconv.Unquote(e.Value)
		return s, err == nil
	case *ast.ParenExpr:
		return c8StringConst(e.X)
	case *ast.BinaryExpr:
		if e.Op != token.ADD {
			return "", false
		}
		a, ok1 := c8StringConst(e.X)
		b, ok2 := c8StringConst(e.Y)
		return a + b, ok1 && ok2
	}
	return "", false
}

// c8Harvest parses every non-test Go file below the check directories of the repository and returns
// the string argument of every pattern.MustParse call. unresolved counts calls whose argument is not a
// string constant expression.
func c8Harvest() (out []c8Harvested, unresolved []string, err error) {
	repo := vx.RepoDir()
	for _, top := range []string{"simple", "staticcheck", "stylecheck", "quickfix", "analysis"} {
		root := filepath.Join(repo, top)
		werr := filepath.WalkDir(root, func(p string, d fs.DirEntry, err error) error {
			if err != nil {
				return err
			}
			if d.IsDir() {
				if d.Name() == "testdata" {
					return filepath.SkipDir
				}
				return nil
			}
			if !strings.HasSuffix(p, ".go") || strings.HasSuffix(p, "_test.go") {
				return nil
			}
			fset := token.NewFileSet()
			f, perr := parser.ParseFile(fset, p, nil, parser.SkipObjectResolution)
			if perr != nil {
				return perr
			}
			// the local name of honnef.co/go/tools/pattern in this file
			pname := ""
			for _, im := range f.Imports {
				if path, _ := strconv.Unquote(im.Path.Value); path == "honnef.co/go/tools/pattern" {
					pname = "pattern"
					if im.Name != nil {
						pname = im.Name.Name
					}
				}
			}
			if pname == "" {
				return nil
			}
			rel, _ := filepath.Rel(repo, p)
			ast.Inspect(f, func(n ast.Node) bool {
				call, ok := n.(*ast.CallExpr)
				if !ok || len(call.Args) != 1 {
					return true
				}
				sel, ok := call.Fun.(*ast.SelectorExpr)
				if !ok || sel.Sel.Name != "MustParse" {
					return true
				}
				if id, ok := sel.X.(*ast.Ident); !ok || id.Name != pname {
					return true
				}
				where := fmt.Sprintf("%s:%d", rel, fset.Position(call.Pos()).Line)
				s, ok := c8StringConst(call.Args[0])
				if !ok {
					unresolved = append(unresolved, where)
					return true
				}
				out = append(out, c8Harvested{Text: s, Where: where, Check: filepath.Dir(rel)})
				return true
			})
			return nil
		})
		if werr != nil {
			return nil, nil, werr
		}
	}
	sort.SliceStable(out, func(i, j int) bool { return out[i].Where < out[j].Where })
	return out, unresolved, nil
}

// ---------------------------------------------------------------------------------------------
// Generated patterns.
//
// Sorted grammar (E: node position, Y: symbol name, S: identifier name, B: builtin name, T: token,
// L: list position). Depth of an atom is 0; weight = number of constructors + number of atoms other
// than `_`. A binding name is created at most once per pattern and never after another occurrence of
// the same name (doc.go: providing a node to an already bound binding is an error).
//
//	E ::= _ | x | nil | (Ident S) | (Builtin B) | (Object S) | (Symbol Y) | (SelectorExpr E E)
//	    | (CallExpr E L) | (BinaryExpr E T E) | (AssignStmt L T L) | (Or E E) | (Not E)
//	    | x@E' | (Binding "x" E') | (Binding "y" nil)            E' a constructor term
//	Y ::= _ | "<symbol>" | (Or Y0 Y0) | n@(Or Y0 Y0) | (Not Y0)  Y0 a symbol string
//	S ::= _ | "F" | "a" | "lib" | (Or S0 S0)
//	B ::= _ | "len" | "append"
//	T ::= _ | "+" | "=" | ":="
//	L ::= _ | [] | E | [E] | [E E0] | E:_                        (E0 an atom)
//	root ::= E constructor written with a leading '(' | (List E L0)

type c8Term struct {
	s string
	w int
}

type c8Gen struct {
	syms   []string // symbol names for Y
	orSyms []string // symbol names combined pairwise under Or
	maxW   int
	memo   map[string][]c8Term
}

func c8Atoms(ss ...string) []c8Term {
	out := make([]c8Term, len(ss))
	for i, s := range ss {
		w := 1
		if s == "_" {
			w = 0
		}
		out[i] = c8Term{s, w}
	}
	return out
}

func c8Quote(ss []string) []string {
	out := make([]string, len(ss))
	for i, s := range ss {
		out[i] = strconv.Quote(s)
	}
	return out
}

func (g *c8Gen) sortY(d int) []c8Term {
	out := c8Atoms(append([]string{"_"}, c8Quote(g.syms)...)...)
	if d >= 1 {
		for i, a := range g.orSyms {
			for j, b := range g.orSyms {
				if i == j {
					continue
				}
				if i < j {
					out = append(out, c8Term{fmt.Sprintf("(Or %q %q)", a, b), 3})
					out = append(out, c8Term{fmt.Sprintf("n@(Or %q %q)", a, b), 4})
				}
			}
			out = append(out, c8Term{fmt.Sprintf("(Not %q)", a), 2})
			out = append(out, c8Term{fmt.Sprintf("(Or %q _)", a), 2})
		}
	}
	return out
}

func (g *c8Gen) sortS(d int) []c8Term {
	out := c8Atoms("_", `"F"`, `"a"`, `"lib"`)
	if d >= 1 {
		out = append(out, c8Term{`(Or "F" "a")`, 3})
	}
	return out
}

func (g *c8Gen) sortB(int) []c8Term { return c8Atoms("_", `"len"`, `"append"`) }
func (g *c8Gen) sortT(int) []c8Term { return c8Atoms("_", `"+"`, `"="`, `":="`) }

func (g *c8Gen) atomsE() []c8Term { return c8Atoms("_", "x", "nil") }

// consE returns the constructor terms of sort E of depth <= d (d >= 1).
func (g *c8Gen) consE(d int) []c8Term {
	key := fmt.Sprintf("consE%d", d)
	if r, ok := g.memo[key]; ok {
		return r
	}
	var out []c8Term
	add := func(format string, w int, args ...any) {
		if w <= g.maxW {
			out = append(out, c8Term{fmt.Sprintf(format, args...), w})
		}
	}
	sub := g.sortE(d - 1)
	var subCons []c8Term
	if d >= 2 {
		subCons = g.consE(d - 1)
	}
	for _, s := range g.sortS(d - 1) {
		add("(Ident %s)", 1+s.w, s.s)
		add("(Object %s)", 1+s.w, s.s)
	}
	for _, b := range g.sortB(d - 1) {
		add("(Builtin %s)", 1+b.w, b.s)
	}
	for _, y := range g.sortY(d - 1) {
		add("(Symbol %s)", 1+y.w, y.s)
	}
	for _, a := range sub {
		add("(Not %s)", 1+a.w, a.s)
		for _, b := range sub {
			if 1+a.w+b.w > g.maxW {
				continue
			}
			add("(SelectorExpr %s %s)", 1+a.w+b.w, a.s, b.s)
			add("(Or %s %s)", 1+a.w+b.w, a.s, b.s)
		}
		for _, l := range g.sortL(d - 1) {
			add("(CallExpr %s %s)", 1+a.w+l.w, a.s, l.s)
		}
		for _, t := range g.sortT(d - 1) {
			for _, b := range sub {
				add("(BinaryExpr %s %s %s)", 1+a.w+t.w+b.w, a.s, t.s, b.s)
			}
		}
	}
	for _, l1 := range g.sortL(d - 1) {
		for _, t := range g.sortT(d - 1) {
			for _, l2 := range g.sortL(d - 1) {
				add("(AssignStmt %s %s %s)", 1+l1.w+t.w+l2.w, l1.s, t.s, l2.s)
			}
		}
	}
	for _, c := range subCons {
		add("x@%s", 1+c.w, c.s)
		add(`(Binding "x" %s)`, 1+c.w, c.s)
	}
	add(`(Binding "y" nil)`, 2)
	out = c8WellFormed(out)
	g.memo[key] = out
	return out
}

func (g *c8Gen) sortE(d int) []c8Term {
	out := g.atomsE()
	if d >= 1 {
		out = append(out, g.consE(d)...)
	}
	return out
}

func (g *c8Gen) sortL(d int) []c8Term {
	key := fmt.Sprintf("L%d", d)
	if r, ok := g.memo[key]; ok {
		return r
	}
	out := c8Atoms("_", "[]")
	if d >= 0 {
		out = append(out, c8Atoms("x", "nil")...)
	}
	if d >= 1 {
		// a single node in list position, and the list spellings around terms one level down
		out = append(out, g.consE(d)...)
		for _, e := range g.sortE(d - 1) {
			if 1+e.w <= g.maxW {
				out = append(out, c8Term{"[" + e.s + "]", 1 + e.w})
				out = append(out, c8Term{"(List " + e.s + " _)", 1 + e.w})
			}
			for _, e0 := range g.atomsE() {
				if 1+e.w+e0.w <= g.maxW {
					out = append(out, c8Term{"[" + e.s + " " + e0.s + "]", 1 + e.w + e0.w})
				}
			}
		}
	}
	out = c8WellFormed(out)
	g.memo[key] = out
	return out
}

// c8WellFormed drops terms in which the binding x is given a node (x@…, (Binding "x" …)) after
// another occurrence of x in traversal order, or twice.
func c8WellFormed(in []c8Term) []c8Term {
	out := in[:0:0]
	for _, t := range in {
		if c8BindingOK(t.s) {
			out = append(out, t)
		}
	}
	return out
}

func c8BindingOK(s string) bool {
	if strings.Count(s, "n@") > 1 {
		return false
	}
	seen := false
	for i := 0; i < len(s); i++ {
		switch {
		case s[i] == '"':
			// skip the string; (Binding "x" is a creating occurrence
			j := i + 1
			for j < len(s) && s[j] != '"' {
				j++
			}
			if s[i:j+1] == `"x"` && i >= 9 && s[i-9:i] == "(Binding " {
				if seen {
					return false
				}
				seen = true
			}
			i = j
		case s[i] == 'x' && (i == 0 || strings.IndexByte(" ([", s[i-1]) >= 0):
			if i+1 < len(s) && s[i+1] == '@' {
				if seen {
					return false
				}
				seen = true
			} else if i+1 == len(s) || strings.IndexByte(" )]", s[i+1]) >= 0 {
				seen = true
			}
		}
	}
	return true
}

// c8Generated returns the root patterns: constructor terms of sort E up to depth, spelled so that
// the parser accepts them at the root (a leading '('), plus (List E L0) roots; ordered by weight,
// then text.
func c8Generated(syms, orSyms []string, depth, maxW int) []string {
	g := &c8Gen{syms: syms, orSyms: orSyms, maxW: maxW, memo: map[string][]c8Term{}}
	var terms []c8Term
	for _, t := range g.consE(depth) {
		if strings.HasPrefix(t.s, "x@") {
			continue // spelled (Binding "x" …) at the root
		}
		terms = append(terms, t)
	}
	for _, e := range g.sortE(depth - 1) {
		for _, l := range c8Atoms("_", "[]") {
			if 1+e.w+l.w <= maxW {
				terms = append(terms, c8Term{"(List " + e.s + " " + l.s + ")", 1 + e.w + l.w})
			}
		}
	}
	terms = c8WellFormed(terms)
	sort.SliceStable(terms, func(i, j int) bool {
		if terms[i].w != terms[j].w {
			return terms[i].w < terms[j].w
		}
		return terms[i].s < terms[j].s
	})
	out := make([]string, 0, len(terms))
	var last string
	for _, t := range terms {
		if t.s != last {
			out = append(out, t.s)
		}
		last = t.s
	}
	return out
}
