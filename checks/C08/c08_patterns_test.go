//go:build verif

package code_test

// C08, part 2: the patterns. (i) Every pattern.MustParse literal of the checks, harvested from the
// CURRENT source of the repository; (ii) all terms of a sorted pattern grammar up to a depth and a
// weight bound, with symbol names drawn from the generated library and the builtins.

import (
	"fmt"
	"go/ast"
	"go/parser"
	"go/token"
	"io/fs"
	"path/filepath"
	"sort"
	"strconv"
	"strings"

	"honnef.co/go/tools/internal/verifx/vx"
)

type c8Harvested struct {
	Text  string
	Where string // repo-relative file:line
	Check string // repo-relative directory of the owning check
}

func c8StringConst(e ast.Expr) (string, bool) {
	switch e := e.(type) {
	case *ast.BasicLit:
		if e.Kind != token.STRING {
			return "", false
		}
		s, err := strconv.Unquote(e.Value)
		return s, err == nil
	case *ast.ParenExpr:
		return c8StringConst(e.X)
	case *ast.BinaryExpr:
		if e.Op != token.ADD {
			return "", false
		}
		a, ok1 := c8StringConst(e.X)
		b, ok2 := c8StringConst(e.Y)
		return a + b, ok1 && ok2
	}
	return "", false
}

// c8Harvest parses every non-test Go file below the check directories of the repository and returns
// the string argument of every pattern.MustParse call. unresolved counts calls whose argument is not a
// string constant expression.
func c8Harvest() (out []c8Harvested, unresolved []string, err error) {
	repo := vx.RepoDir()
	for _, top := range []string{"simple", "staticcheck", "stylecheck", "quickfix", "analysis"} {
		root := filepath.Join(repo, top)
		werr := filepath.WalkDir(root, func(p string, d fs.DirEntry, err error) error {
			if err != nil {
				return err
			}
			if d.IsDir() {
				if d.Name() == "testdata" {
					return filepath.SkipDir
				}
				return nil
			}
			if !strings.HasSuffix(p, ".go") || strings.HasSuffix(p, "_test.go") {
				return nil
			}
			fset := token.NewFileSet()
			f, perr := parser.ParseFile(fset, p, nil, parser.SkipObjectResolution)
			if perr != nil {
				return perr
			}
			// the local name of honnef.co/go/tools/pattern in this file
			pname := ""
			for _, im := range f.Imports {
				if path, _ := strconv.Unquote(im.Path.Value); path == "honnef.co/go/tools/pattern" {
					pname = "pattern"
					if im.Name != nil {
						pname = im.Name.Name
					}
				}
			}
			if pname == "" {
				return nil
			}
			rel, _ := filepath.Rel(repo, p)
			ast.Inspect(f, func(n ast.Node) bool {
				call, ok := n.(*ast.CallExpr)
				if !ok || len(call.Args) != 1 {
					return true
				}
				sel, ok := call.Fun.(*ast.SelectorExpr)
				if !ok || sel.Sel.Name != "MustParse" {
					return true
				}
				if id, ok := sel.X.(*ast.Ident); !ok || id.Name != pname {
					return true
				}
				where := fmt.Sprintf("%s:%d", rel, fset.Position(call.Pos()).Line)
				s, ok := c8StringConst(call.Args[0])
				if !ok {
					unresolved = append(unresolved, where)
					return true
				}
				out = append(out, c8Harvested{Text: s, Where: where, Check: filepath.Dir(rel)})
				return true
			})
			return nil
		})
		if werr != nil {
			return nil, nil, werr
		}
	}
	sort.SliceStable(out, func(i, j int) bool { return out[i].Where < out[j].Where })
	return out, unresolved, nil
}

