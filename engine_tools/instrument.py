#!/usr/bin/env python3
"""E2a -- mechanical import rewriting of the CURRENT source files of /repo.

usage: instrument.py '<json config>' <scratch dir> <overlay.json>

config: {"rewrite_imports": [{"dir": "lintcmd/cache", "files": ["cache.go"] | null (all non-test .go files),
                              "map": {"os": "honnef.co/go/tools/internal/verifx/vfs/vos", ...}}],
         "goinstr": {...}}   # E2b, handled by the Go tool (see goinstr/)
Writes rewritten copies into <scratch>/instr/ and adds them to the overlay (replacing the
original path), so the harness is always built from what /repo contains now.
"""
import sys, os, json, re, subprocess

REPO = os.environ.get("VERIF_REPO", "/repo")

def rewrite_imports(src, mapping):
    out = []
    in_block = False
    n = 0
    for line in src.split("\n"):
        s = line.strip()
        if re.match(r'^import\s*\($', s):
            in_block = True
            out.append(line); continue
        if in_block and s == ")":
            in_block = False
            out.append(line); continue
        m = None
        if in_block:
            m = re.match(r'^(\s*)(?:([A-Za-z_.][A-Za-z0-9_]*)\s+)?"([^"]+)"(.*)$', line)
            prefix = m.group(1) if m else ""
        else:
            m2 = re.match(r'^(import\s+)(?:([A-Za-z_.][A-Za-z0-9_]*)\s+)?"([^"]+)"(.*)$', line)
            if m2:
                m = m2; prefix = m2.group(1)
        if m and m.group(3) in mapping:
            alias = m.group(2) or m.group(3).split("/")[-1]
            out.append('%s%s "%s"%s' % (prefix, alias, mapping[m.group(3)], m.group(4)))
            n += 1
            continue
        out.append(line)
    return "\n".join(out), n

def main():
    cfg = json.loads(sys.argv[1]); scratch = sys.argv[2]; ovp = sys.argv[3]
    ov = json.load(open(ovp))
    outdir = os.path.join(scratch, "instr")
    for rule in cfg.get("rewrite_imports", []):
        d = os.path.join(REPO, rule["dir"])
        files = rule.get("files") or sorted(f for f in os.listdir(d) if f.endswith(".go") and not f.endswith("_test.go"))
        for f in files:
            p = os.path.join(d, f)
            src = open(p).read()
            new, n = rewrite_imports(src, rule["map"])
            if n == 0:
                continue
            dst = os.path.join(outdir, rule["dir"], f)
            os.makedirs(os.path.dirname(dst), exist_ok=True)
            open(dst, "w").write(new)
            ov["Replace"][p] = dst
    json.dump(ov, open(ovp, "w"), indent=1)
    if cfg.get("goinstr"):
        binp = os.path.join(scratch, "goinstr.bin")
        env = dict(os.environ)
        # the tool is a virtual package of the repository's module (it uses the module's own
        # golang.org/x/tools/go/packages), built through the overlay that already holds the engine
        r = subprocess.run(["go", "build", "-tags", "verif", "-overlay", ovp, "-o", binp, "./internal/verifx/goinstr"], cwd=REPO, env=env)
        if r.returncode != 0:
            sys.exit(1)
        r = subprocess.run([binp, "-repo", REPO, "-config", json.dumps(cfg["goinstr"]), "-out", outdir, "-overlay", ovp], env=env)
        if r.returncode != 0:
            sys.exit(r.returncode)

if __name__ == "__main__":
    main()
