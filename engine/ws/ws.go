//go:build verif

// Package ws generates the small std-free workspace used by the history checks (C04, C05-D):
// a module example.com/m with packages base <- dep <- mid <- {tgt, top} whose content is a function of a bit
// vector (source edits that flip exported facts, configuration files, build-tagged files),
// and runs the real staticcheck binary on it with a given flag vector and cache directory.
package ws

import (
	"bytes"
	"fmt"
	"os"
	"os/exec"
	"path/filepath"
	"sort"
	"strings"
)

// Workspace bits.
const (
	TgtEdit    = 1 << iota // tgt gains a flagged line (S1002)
	Deprecated             // dep.Old is deprecated (SA1019 in tgt; mid re-exports it undocumented)
	Impure                 // dep.Pure writes a global: no longer pure (SA4017 in tgt disappears, also through mid.Twice)
	MaybeNil               // dep.Iface may return a nil interface (SA4023 in tgt disappears, also through mid.Get)
	RootConf               // staticcheck.conf at the module root: checks = ["all", "-ST1000"]
	TgtConf                // tgt/staticcheck.conf: initialisms = [] (ST1003 for GetId disappears)
	BadConf                // tgt/staticcheck.conf is malformed (config error)
	BaseDepr               // base.T.M (three import levels below tgt, reached through mid only) is deprecated
	NumWSBits  = iota
)

// Flag bits (stored above the workspace bits).
const (
	GoOld   = 1 << (NumWSBits + iota) // -go 1.20 (range-over-int in tgt no longer compiles)
	TagX                              // -tags x (tgt_x.go joins the package)
	Checks                            // -checks "SA*,-SA1019"
	Windows                           // GOOS=windows (tgt_windows.go joins the package)
	Tests                             // -tests=true (in-package test file of tgt with a flagged line; pulls in std)
	PatTop                            // package pattern ./top instead of ./... (base, dep and mid are analysed for their facts only; tgt not at all)
	NumBits = NumWSBits + iota
)

var BitNames = []string{"tgt-edit", "dep-deprecated", "dep-impure", "dep-maybenil", "root-conf", "tgt-conf", "bad-conf", "base-deprecated", "go1.20", "tags-x", "checks", "windows", "tests", "pattern-top"}

func Describe(p int) string {
	var s []string
	for i, n := range BitNames {
		if p&(1<<i) != 0 {
			s = append(s, n)
		}
	}
	if len(s) == 0 {
		return "base"
	}
	return strings.Join(s, "+")
}

// Files returns the workspace content for point p (workspace bits only).
func Files(p int) map[string]string {
	f := map[string]string{}
	f["go.mod"] = "module example.com/m\n\ngo 1.22\n"
	// the toggle keeps the line count (and so every position in dep's export data) unchanged:
	// only dep's source hash tells the two versions apart
	depr := "//\n// Do not remove: see New.\n"
	if p&Deprecated != 0 {
		depr = "//\n// Deprecated: use New.\n"
	}
	pure := "func Pure(x int) int { return x * 2 }"
	if p&Impure != 0 {
		pure = "func Pure(x int) int { Sink = x; return x * 2 }"
	}
	iface := "func Iface() any { return &T{} }"
	if p&MaybeNil != 0 {
		iface = "func Iface() any {\n\tif Sink > 0 {\n\t\treturn nil\n\t}\n\treturn &T{}\n}"
	}
	// every package below tgt and top has problems of its own (S1002 and U1000), so that a run
	// in which it is only a dependency differs from one in which it is a root
	own := "\nfunc flagged(b bool) bool { return b == true }\n"
	f["dep/dep.go"] = "// Package dep is the dependency.\npackage dep\n\nimport \"example.com/m/base\"\n\n// B is base.T under another name.\ntype B = base.T\n\n// NewB makes one.\nfunc NewB() B { return B{} }\n\n// T is a type.\ntype T struct{ X int }\n\n// Old is old.\n" + depr + "func Old() int { return 1 }\n\n// New is new.\nfunc New() int { return 2 }\n\n// Sink is a global.\nvar Sink int\n\n// Pure doubles.\n" + pure + "\n\n// Iface returns an interface.\n" + iface + "\n" + own
	// base is three import levels below tgt (tgt -> mid -> dep -> base); tgt reaches base.T.M
	// through mid.Deep() without importing dep or base. The toggle rewrites a doc line in place,
	// so base's export data and with it the build ids of dep and mid stay byte-identical: only
	// the facts flowing up through the vetx files tell the two versions apart.
	bdepr := "// M is fine: keep using it.\n"
	if p&BaseDepr != 0 {
		bdepr = "// Deprecated: do not use M.\n"
	}
	f["base/base.go"] = "// Package base is the bottom of the chain.\npackage base\n\n// T is a type.\ntype T struct{}\n\n// M is a method.\n//\n" + bdepr + "func (T) M() int { return 1 }\n" + own
	f["mid/mid.go"] = "// Package mid sits in the middle.\npackage mid\n\nimport \"example.com/m/dep\"\n\n// Get forwards dep.Iface.\nfunc Get() any { return dep.Iface() }\n\n// Twice applies dep.Pure twice.\nfunc Twice(x int) int { return dep.Pure(dep.Pure(x)) }\n\n// Deep hands out a value of a type declared three levels down.\nfunc Deep() dep.B { return dep.NewB() }\n" + own
	extra := ""
	if p&TgtEdit != 0 {
		extra = "\tif b == false {\n\t\tx--\n\t}\n"
	}
	f["tgt/tgt.go"] = "package tgt\n\nimport (\n\t\"example.com/m/dep\"\n\t\"example.com/m/mid\"\n)\n\nfunc GetId() int { return dep.Old() + mid.Deep().M() }\n\nfunc F(x int, b bool) int {\n\tdep.Pure(x)\n\tmid.Twice(x)\n\tif dep.Iface() == nil {\n\t\treturn 0\n\t}\n\tif mid.Get() == nil {\n\t\treturn 1\n\t}\n\tfor range 3 {\n\t\tx++\n\t}\n\tif b == true {\n\t\treturn x\n\t}\n" + extra + "\treturn dep.New()\n}\n"
	// top imports mid only: it reaches base.T.M three import levels down (top -> mid -> dep ->
	// base) and none of its direct imports' package hashes changes when base's doc comment does
	f["top/top.go"] = "// Package top sits on top of mid.\npackage top\n\nimport \"example.com/m/mid\"\n\n// G calls a method declared three levels down.\nfunc G() int { return mid.Deep().M() }\n"
	f["tgt/tgt_windows.go"] = "package tgt\n\nfunc onWindows(b bool) bool { return b == false }\n"
	f["tgt/tgt_x.go"] = "//go:build x\n\npackage tgt\n\nfunc tagged(b bool) bool { return !(b == true) }\n"
	f["tgt/tgt_test.go"] = "package tgt\n\nimport \"testing\"\n\nfunc TestF(t *testing.T) {\n\tif F(1, true) != 0 == true {\n\t\tt.Fatal()\n\t}\n}\n"
	if p&RootConf != 0 {
		f["staticcheck.conf"] = "checks = [\"all\", \"-ST1000\"]\n"
	}
	switch {
	case p&BadConf != 0:
		f["tgt/staticcheck.conf"] = "checks = [\"all\"\ninitialisms = \n"
	case p&TgtConf != 0:
		f["tgt/staticcheck.conf"] = "initialisms = []\n"
	}
	return f
}

// Write makes dir contain exactly Files(p) (files that differ are rewritten; with touch set all
// files get a new modification time even if unchanged).
func Write(dir string, p int, touch bool) error {
	want := Files(p)
	for name, src := range want {
		path := filepath.Join(dir, name)
		old, err := os.ReadFile(path)
		if err == nil && string(old) == src && !touch {
			continue
		}
		if err := os.MkdirAll(filepath.Dir(path), 0o755); err != nil {
			return err
		}
		if err := os.WriteFile(path, []byte(src), 0o644); err != nil {
			return err
		}
	}
	for _, name := range []string{"staticcheck.conf", "tgt/staticcheck.conf"} {
		if _, ok := want[name]; !ok {
			os.Remove(filepath.Join(dir, name))
		}
	}
	return nil
}

type Outcome struct {
	Stdout string
	Code   int
}

func (o Outcome) String() string { return fmt.Sprintf("exit %d\n%s", o.Code, o.Stdout) }

// MountAt, if non-empty, is a fixed path at which every workspace is made visible (private
// mount namespace + bind mount) while the binary runs: the Go build cache and staticcheck's
// package hashes depend on the absolute directory, so parallel workers with private workspace
// copies must all appear at one path for cache entries to be shared between them.
var MountAt string

// CanMount reports whether private bind mounts work here.
func CanMount(scratch string) bool {
	a, b := filepath.Join(scratch, "mnt-probe-a"), filepath.Join(scratch, "mnt-probe-b")
	os.MkdirAll(a, 0o755)
	os.MkdirAll(b, 0o755)
	os.WriteFile(filepath.Join(a, "probe"), []byte("x"), 0o644)
	out, err := exec.Command("unshare", "-m", "sh", "-c", `mount --bind "$1" "$2" && cat "$2/probe"`, "sh", a, b).Output()
	return err == nil && string(out) == "x"
}

// Run executes the binary on the workspace in dir for point p with the given cache directory.
func Run(bin, dir, cachedir string, p int) (Outcome, error) {
	args := []string{"-f", "json", "-show-ignored"}
	if p&Tests != 0 {
		args = append(args, "-tests=true")
	} else {
		args = append(args, "-tests=false")
	}
	if p&GoOld != 0 {
		args = append(args, "-go", "1.20")
	}
	if p&TagX != 0 {
		args = append(args, "-tags", "x")
	}
	if p&Checks != 0 {
		args = append(args, "-checks", "SA*,-SA1019")
	} else if p&RootConf == 0 {
		args = append(args, "-checks", "all")
	}
	if p&PatTop != 0 {
		args = append(args, "./top")
	} else {
		args = append(args, "./...")
	}
	cmd := exec.Command(bin, args...)
	cmd.Dir = dir
	shown := dir
	if MountAt != "" {
		sh := `mount --bind "$1" "$2" && cd "$2" && shift 2 && exec "$@"`
		cmd = exec.Command("unshare", append([]string{"-m", "sh", "-c", sh, "sh", dir, MountAt, bin}, args...)...)
		shown = MountAt
	}
	env := os.Environ()
	env = append(env, "STATICCHECK_CACHE="+cachedir, "TZ=UTC")
	if p&Windows != 0 {
		env = append(env, "GOOS=windows")
	} else {
		env = append(env, "GOOS=linux")
	}
	cmd.Env = env
	var out, errb bytes.Buffer
	cmd.Stdout, cmd.Stderr = &out, &errb
	err := cmd.Run()
	code := 0
	if ee, ok := err.(*exec.ExitError); ok {
		code = ee.ExitCode()
		err = nil
	}
	if err != nil {
		return Outcome{}, fmt.Errorf("%v: %s", err, errb.String())
	}
	if code > 1 {
		return Outcome{Stdout: out.String() + "\nSTDERR: " + errb.String(), Code: code}, nil
	}
	// normalise the absolute workspace path out of file names
	s := strings.ReplaceAll(out.String(), shown+"/", "")
	s = strings.ReplaceAll(s, shown, "")
	lines := strings.Split(strings.TrimSpace(s), "\n")
	// output order is part of C06; here problems are compared as a multiset
	sort.Strings(lines)
	return Outcome{Stdout: strings.Join(lines, "\n") + "\n", Code: code}, nil
}

// CacheDigest is a canonical description of a cache directory: the sorted list of entry file
// names (entries are content addressed: the name of a data file is the hash of its content;
// index entries are compared by content minus the timestamp column).
func CacheDigest(dir string) string {
	var names []string
	filepath.Walk(dir, func(path string, info os.FileInfo, err error) error {
		if err != nil || info.IsDir() {
			return nil
		}
		base := filepath.Base(path)
		if strings.HasSuffix(base, "-a") {
			b, _ := os.ReadFile(path)
			if len(b) > 21 {
				b = b[:len(b)-21]
			}
			names = append(names, base+"="+string(b))
		} else if strings.HasSuffix(base, "-d") {
			names = append(names, base)
		}
		return nil
	})
	sort.Strings(names)
	return strings.Join(names, "\n")
}

// CopyDir copies a cache directory (regular files and directories).
func CopyDir(src, dst string) error {
	return filepath.Walk(src, func(path string, info os.FileInfo, err error) error {
		if err != nil {
			return err
		}
		rel, _ := filepath.Rel(src, path)
		target := filepath.Join(dst, rel)
		if info.IsDir() {
			return os.MkdirAll(target, 0o755)
		}
		b, err := os.ReadFile(path)
		if err != nil {
			return err
		}
		if err := os.WriteFile(target, b, 0o644); err != nil {
			return err
		}
		return os.Chtimes(target, info.ModTime(), info.ModTime())
	})
}
