//go:build verif

// Command goinstr is engine E2: a type-directed source instrumenter. It reads the CURRENT
// files of packages in the repository, and writes copies in which every synchronisation
// operation is routed through the cooperative scheduler (package sched and the sync /
// sync/atomic shims), map iteration order becomes an environment choice, and accesses to
// fields of monitored struct types feed the happens-before monitor. The copies are added to
// a `go build -overlay` file; the repository itself is never modified.
//
// The rewrite is done by splicing source text at AST positions, so everything that is not
// rewritten (comments, //go: directives, formatting) is preserved byte for byte.
//
// It refuses (exit status 3) when it meets a concurrency construct it cannot rewrite, so
// that a source change cannot silently escape the scheduler.
package main

import (
	"encoding/json"
	"flag"
	"fmt"
	"go/ast"
	"go/token"
	"go/types"
	"os"
	"path/filepath"
	"sort"
	"strings"

	"golang.org/x/tools/go/packages"
)

type pkgConfig struct {
	Pkg      string            `json:"pkg"`            // import path relative to the module, e.g. "lintcmd/runner"
	Files    []string          `json:"files"`          // base names; empty = all non-test files
	Monitor  []string          `json:"monitor"`        // struct types whose field accesses are monitored: "T" (all fields) or "T.f"
	MapRange bool              `json:"maprange"`       // rewrite range-over-map into an environment choice
	MapFuncs []string          `json:"maprange_funcs"` // if non-empty: only inside these functions / methods (by name)
	Seams    map[string]string `json:"seams"`          // "loader.Graph" -> "verifGraph": call through a package-level var
	Sync     bool              `json:"sync"`           // rewrite sync / sync/atomic imports
	OnlyMap  bool              `json:"only_maprange"`  // rewrite nothing but range-over-map (no go statements, channels, monitors, seams)
}

type config struct {
	Packages []pkgConfig `json:"packages"`
}

const (
	modPath    = "honnef.co/go/tools"
	schedPath  = modPath + "/internal/verifx/sched"
	vsyncPath  = modPath + "/internal/verifx/vsync"
	vatomPath  = modPath + "/internal/verifx/vatomic"
	schedAlias = "vsched"
)

var failed bool

func refuse(fset *token.FileSet, pos token.Pos, format string, a ...any) {
	fmt.Fprintf(os.Stderr, "goinstr: %s: cannot instrument: %s\n", fset.Position(pos), fmt.Sprintf(format, a...))
	failed = true
}

func main() {
	repo := flag.String("repo", "/repo", "repository root")
	cfgs := flag.String("config", "", "JSON config")
	out := flag.String("out", "", "output directory")
	ovp := flag.String("overlay", "", "overlay JSON to extend")
	flag.Parse()
	var cfg config
	if err := json.Unmarshal([]byte(*cfgs), &cfg); err != nil {
		fmt.Fprintln(os.Stderr, "goinstr: bad config:", err)
		os.Exit(2)
	}
	var ov struct{ Replace map[string]string }
	if b, err := os.ReadFile(*ovp); err == nil {
		json.Unmarshal(b, &ov)
	}
	if ov.Replace == nil {
		ov.Replace = map[string]string{}
	}
	for _, pc := range cfg.Packages {
		pcfg := &packages.Config{
			Mode: packages.NeedName | packages.NeedFiles | packages.NeedCompiledGoFiles | packages.NeedSyntax | packages.NeedTypes | packages.NeedTypesInfo | packages.NeedImports,
			Dir:  *repo,
		}
		pkgs, err := packages.Load(pcfg, "./"+pc.Pkg)
		if err != nil || len(pkgs) != 1 {
			fmt.Fprintln(os.Stderr, "goinstr: load:", pc.Pkg, err)
			os.Exit(2)
		}
		p := pkgs[0]
		if len(p.Errors) > 0 {
			fmt.Fprintln(os.Stderr, "goinstr: package has errors:", p.Errors)
			os.Exit(2)
		}
		want := map[string]bool{}
		for _, f := range pc.Files {
			want[f] = true
		}
		mon := map[string]bool{}
		for _, m := range pc.Monitor {
			mon[m] = true
		}
		mapFuncs := map[string]bool{}
		for _, m := range pc.MapFuncs {
			mapFuncs[m] = true
		}
		seamVars := map[string]string{}
		for i, f := range p.Syntax {
			name := p.CompiledGoFiles[i]
			if len(want) > 0 && !want[filepath.Base(name)] {
				continue
			}
			src, err := os.ReadFile(name)
			if err != nil {
				fmt.Fprintln(os.Stderr, "goinstr:", err)
				os.Exit(2)
			}
			r := &rw{fset: p.Fset, info: p.TypesInfo, pkg: p.Types, src: src, file: f, cfg: pc, monitor: mon, mapFuncs: mapFuncs, parent: map[ast.Node]ast.Node{}, seamVars: seamVars}
			text := r.run()
			dst := filepath.Join(*out, pc.Pkg, filepath.Base(name))
			os.MkdirAll(filepath.Dir(dst), 0o755)
			if err := os.WriteFile(dst, []byte(text), 0o644); err != nil {
				fmt.Fprintln(os.Stderr, "goinstr:", err)
				os.Exit(2)
			}
			ov.Replace[name] = dst
		}
		if len(seamVars) > 0 {
			// one extra file declaring the seam variables
			var b strings.Builder
			fmt.Fprintf(&b, "//go:build verif\n\npackage %s\n\n", p.Types.Name())
			imports := map[string]bool{}
			var names []string
			for k := range seamVars {
				names = append(names, k)
			}
			sort.Strings(names)
			for _, k := range names {
				if i := strings.Index(k, "."); i >= 0 {
					imports[k[:i]] = true
				}
			}
			for _, imp := range p.Types.Imports() {
				if imports[imp.Name()] {
					fmt.Fprintf(&b, "import %q\n", imp.Path())
				}
			}
			b.WriteString("\n")
			for _, k := range names {
				fmt.Fprintf(&b, "var %s = %s\n", seamVars[k], k)
			}
			dst := filepath.Join(*out, pc.Pkg, "zz_verif_seams.go")
			os.WriteFile(dst, []byte(b.String()), 0o644)
			ov.Replace[filepath.Join(*repo, pc.Pkg, "zz_verif_seams.go")] = dst
		}
	}
	if failed {
		os.Exit(3)
	}
	b, _ := json.MarshalIndent(ov, "", " ")
	if err := os.WriteFile(*ovp, b, 0o644); err != nil {
		fmt.Fprintln(os.Stderr, "goinstr:", err)
		os.Exit(2)
	}
}

type rw struct {
	fset      *token.FileSet
	info      *types.Info
	pkg       *types.Package
	src       []byte
	file      *ast.File
	cfg       pkgConfig
	monitor   map[string]bool
	mapFuncs  map[string]bool
	parent    map[ast.Node]ast.Node
	usedSched bool
	seamVars  map[string]string
	tmp       int
}

func (r *rw) off(p token.Pos) int { return r.fset.Position(p).Offset }

func (r *rw) run() string {
	var stack []ast.Node
	ast.Inspect(r.file, func(n ast.Node) bool {
		if n == nil {
			stack = stack[:len(stack)-1]
			return true
		}
		if len(stack) > 0 {
			r.parent[n] = stack[len(stack)-1]
		}
		stack = append(stack, n)
		return true
	})
	var b strings.Builder
	// header up to and including the package clause
	end := r.off(r.file.Name.End())
	b.Write(r.src[:end])
	pos := end
	for _, d := range r.file.Decls {
		b.Write(r.src[pos:r.off(d.Pos())])
		if gd, ok := d.(*ast.GenDecl); ok && gd.Tok == token.IMPORT {
			b.WriteString(r.imports(gd))
		} else {
			b.WriteString(r.str(d))
		}
		pos = r.off(d.End())
	}
	b.Write(r.src[pos:])
	text := b.String()
	if r.usedSched {
		// add the sched import right after the package clause
		text = text[:end] + "\n\nimport " + schedAlias + " \"" + schedPath + "\"\n" + text[end:]
	}
	return text
}

func (r *rw) imports(gd *ast.GenDecl) string {
	if !r.cfg.Sync {
		return string(r.src[r.off(gd.Pos()):r.off(gd.End())])
	}
	var b strings.Builder
	pos := r.off(gd.Pos())
	for _, s := range gd.Specs {
		is := s.(*ast.ImportSpec)
		b.Write(r.src[pos:r.off(is.Pos())])
		path := strings.Trim(is.Path.Value, "\"`")
		repl := ""
		switch path {
		case "sync":
			repl = vsyncPath
		case "sync/atomic":
			repl = vatomPath
		}
		if repl == "" {
			b.Write(r.src[r.off(is.Pos()):r.off(is.End())])
		} else {
			alias := filepath.Base(path)
			if is.Name != nil {
				alias = is.Name.Name
			}
			fmt.Fprintf(&b, "%s %q", alias, repl)
		}
		pos = r.off(is.End())
	}
	b.Write(r.src[pos:r.off(gd.End())])
	return b.String()
}

// children returns the direct child nodes of n in source order.
func children(n ast.Node) []ast.Node {
	var out []ast.Node
	ast.Inspect(n, func(c ast.Node) bool {
		if c == n {
			return true
		}
		if c != nil {
			out = append(out, c)
		}
		return false
	})
	sort.SliceStable(out, func(i, j int) bool { return out[i].Pos() < out[j].Pos() })
	return out
}

// str returns the final text of node n.
func (r *rw) str(n ast.Node) string {
	if s, ok := r.rule(n); ok {
		return s
	}
	return r.generic(n)
}

func (r *rw) generic(n ast.Node) string {
	start, end := r.off(n.Pos()), r.off(n.End())
	var b strings.Builder
	pos := start
	for _, c := range children(n) {
		if !c.Pos().IsValid() || !c.End().IsValid() {
			continue
		}
		cs, ce := r.off(c.Pos()), r.off(c.End())
		if cs < pos || ce > end || ce < cs {
			continue
		}
		b.Write(r.src[pos:cs])
		b.WriteString(r.str(c))
		pos = ce
	}
	b.Write(r.src[pos:end])
	return b.String()
}

func (r *rw) typeOf(e ast.Expr) types.Type {
	if tv, ok := r.info.Types[e]; ok {
		return tv.Type
	}
	if id, ok := e.(*ast.Ident); ok {
		if o := r.info.ObjectOf(id); o != nil {
			return o.Type()
		}
	}
	return nil
}

func (r *rw) isChan(e ast.Expr) bool {
	t := r.typeOf(e)
	if t == nil {
		return false
	}
	_, ok := t.Underlying().(*types.Chan)
	return ok
}

func (r *rw) isMap(e ast.Expr) bool {
	t := r.typeOf(e)
	if t == nil {
		return false
	}
	_, ok := t.Underlying().(*types.Map)
	return ok
}

func (r *rw) isBuiltin(e ast.Expr, name string) bool {
	id, ok := ast.Unparen(e).(*ast.Ident)
	if !ok || id.Name != name {
		return false
	}
	_, ok = r.info.Uses[id].(*types.Builtin)
	return ok
}

func (r *rw) sched() string { r.usedSched = true; return schedAlias }

func (r *rw) fresh(prefix string) string {
	r.tmp++
	return fmt.Sprintf("__%s%d", prefix, r.tmp)
}

func (r *rw) isConstOrNil(e ast.Expr) bool {
	tv, ok := r.info.Types[e]
	if !ok {
		return false
	}
	return tv.Value != nil || tv.IsNil()
}

func (r *rw) rule(n ast.Node) (string, bool) {
	if r.cfg.OnlyMap {
		if n, ok := n.(*ast.RangeStmt); ok && r.cfg.MapRange && r.isMap(n.X) && r.mapRangeHere(n) {
			return r.rangeMap(n), true
		}
		return "", false
	}
	switch n := n.(type) {
	case *ast.ChanType:
		return "*" + r.sched() + ".Chan[" + r.str(n.Value) + "]", true

	case *ast.GoStmt:
		return r.goStmt(n), true

	case *ast.SendStmt:
		if r.inSelectComm(n) {
			return "", false
		}
		return "(" + r.str(n.Chan) + ").Send(" + r.str(n.Value) + ")", true

	case *ast.UnaryExpr:
		if n.Op == token.ARROW {
			// v, ok := <-c is handled at the assignment
			return "(" + r.str(n.X) + ").Recv()", true
		}

	case *ast.AssignStmt:
		if len(n.Lhs) == 2 && len(n.Rhs) == 1 {
			if u, ok := ast.Unparen(n.Rhs[0]).(*ast.UnaryExpr); ok && u.Op == token.ARROW {
				return r.str(n.Lhs[0]) + ", " + r.str(n.Lhs[1]) + " " + n.Tok.String() + " (" + r.str(u.X) + ").Recv2()", true
			}
		}
		return r.assign(n)

	case *ast.IncDecStmt:
		if s, ok := r.monitoredLHS(n.X); ok {
			return s + n.Tok.String(), true
		}

	case *ast.ValueSpec:
		if len(n.Names) == 2 && len(n.Values) == 1 {
			if u, ok := ast.Unparen(n.Values[0]).(*ast.UnaryExpr); ok && u.Op == token.ARROW {
				ty := ""
				if n.Type != nil {
					ty = " " + r.str(n.Type)
				}
				return n.Names[0].Name + ", " + n.Names[1].Name + ty + " = (" + r.str(u.X) + ").Recv2()", true
			}
		}

	case *ast.CallExpr:
		if r.isBuiltin(n.Fun, "make") && len(n.Args) >= 1 && r.isChan(n.Args[0]) {
			ct, ok := n.Args[0].(*ast.ChanType)
			if !ok {
				refuse(r.fset, n.Pos(), "make of a named channel type")
				return "", false
			}
			size := "0"
			if len(n.Args) > 1 {
				size = r.str(n.Args[1])
			}
			return r.sched() + ".MakeChan[" + r.str(ct.Value) + "](" + size + ")", true
		}
		if len(n.Args) == 1 && r.isChan(n.Args[0]) {
			for _, b := range [][2]string{{"close", "Close"}, {"len", "Len"}, {"cap", "Cap"}} {
				if r.isBuiltin(n.Fun, b[0]) {
					return "(" + r.str(n.Args[0]) + ")." + b[1] + "()", true
				}
			}
		}
		if len(r.cfg.Seams) > 0 {
			if sel, ok := n.Fun.(*ast.SelectorExpr); ok {
				if x, ok := sel.X.(*ast.Ident); ok {
					key := x.Name + "." + sel.Sel.Name
					if v, ok := r.cfg.Seams[key]; ok {
						if _, isPkg := r.info.Uses[x].(*types.PkgName); isPkg {
							r.seamVars[key] = v
							var args []string
							for _, a := range n.Args {
								args = append(args, r.str(a))
							}
							ell := ""
							if n.Ellipsis.IsValid() {
								ell = "..."
							}
							return v + "(" + strings.Join(args, ", ") + ell + ")", true
						}
					}
				}
			}
		}

	case *ast.RangeStmt:
		if r.isChan(n.X) {
			return r.rangeChan(n), true
		}
		if r.cfg.MapRange && r.isMap(n.X) && r.mapRangeHere(n) {
			return r.rangeMap(n), true
		}

	case *ast.SelectStmt:
		return r.selectStmt(n), true

	case *ast.SelectorExpr:
		if s, ok := r.monitoredRead(n); ok {
			return s, true
		}
	}
	return "", false
}

func (r *rw) mapRangeHere(n ast.Node) bool {
	if len(r.mapFuncs) == 0 {
		return true
	}
	for p := r.parent[n]; p != nil; p = r.parent[p] {
		if fd, ok := p.(*ast.FuncDecl); ok {
			return r.mapFuncs[fd.Name.Name]
		}
	}
	return false
}

func (r *rw) inSelectComm(n ast.Node) bool {
	cc, ok := r.parent[n].(*ast.CommClause)
	return ok && cc.Comm == n
}

func (r *rw) goStmt(n *ast.GoStmt) string {
	call := n.Call
	if fl, ok := call.Fun.(*ast.FuncLit); ok && len(call.Args) == 0 {
		return r.sched() + ".Go(" + r.str(fl) + ")"
	}
	var pre []string
	var lhs, rhs []string
	fn := r.fresh("f")
	lhs = append(lhs, fn)
	rhs = append(rhs, r.str(call.Fun))
	var args []string
	for _, a := range call.Args {
		if r.isConstOrNil(a) {
			args = append(args, r.str(a))
			continue
		}
		v := r.fresh("a")
		lhs = append(lhs, v)
		rhs = append(rhs, r.str(a))
		args = append(args, v)
	}
	_ = pre
	ell := ""
	if call.Ellipsis.IsValid() {
		ell = "..."
	}
	return "{ " + strings.Join(lhs, ", ") + " := " + strings.Join(rhs, ", ") + "; " + r.sched() + ".Go(func() { " + fn + "(" + strings.Join(args, ", ") + ell + ") }) }"
}

func (r *rw) blockInner(b *ast.BlockStmt) string {
	s := r.str(b)
	s = strings.TrimSpace(s)
	s = strings.TrimPrefix(s, "{")
	s = strings.TrimSuffix(s, "}")
	return s
}

func (r *rw) rangeChan(n *ast.RangeStmt) string {
	ok := r.fresh("ok")
	var head string
	switch {
	case n.Key == nil:
		head = "_, " + ok + " := (" + r.str(n.X) + ").Recv2()"
	case n.Tok == token.DEFINE:
		head = r.str(n.Key) + ", " + ok + " := (" + r.str(n.X) + ").Recv2()"
	default:
		head = "var " + ok + " bool; " + r.str(n.Key) + ", " + ok + " = (" + r.str(n.X) + ").Recv2()"
	}
	return "for { " + head + "; if !" + ok + " { break }; " + r.blockInner(n.Body) + " }"
}

func (r *rw) rangeMap(n *ast.RangeStmt) string {
	if n.Key == nil && n.Value == nil {
		// for range m {...}: order is unobservable
		return r.generic(n)
	}
	m := r.fresh("m")
	k := r.fresh("k")
	ok := r.fresh("ok")
	var b strings.Builder
	fmt.Fprintf(&b, "{ %s := %s; for _, %s := range %s.MapKeys(%s) { ", m, r.str(n.X), k, r.sched(), m)
	keyName, valName := "_", "_"
	if n.Key != nil {
		keyName = r.str(n.Key)
	}
	if n.Value != nil {
		valName = r.str(n.Value)
	}
	vtmp := r.fresh("v")
	fmt.Fprintf(&b, "%s, %s := %s[%s]; if !%s { continue }; ", vtmp, ok, m, k, ok)
	if n.Tok == token.DEFINE {
		if keyName != "_" {
			fmt.Fprintf(&b, "%s := %s; _ = %s; ", keyName, k, keyName)
		}
		if valName != "_" {
			fmt.Fprintf(&b, "%s := %s; _ = %s; ", valName, vtmp, valName)
		} else {
			fmt.Fprintf(&b, "_ = %s; ", vtmp)
		}
	} else {
		if keyName != "_" {
			fmt.Fprintf(&b, "%s = %s; ", keyName, k)
		}
		if valName != "_" {
			fmt.Fprintf(&b, "%s = %s; ", valName, vtmp)
		} else {
			fmt.Fprintf(&b, "_ = %s; ", vtmp)
		}
	}
	b.WriteString(r.blockInner(n.Body))
	b.WriteString(" } }")
	if _, labelled := r.parent[n].(*ast.LabeledStmt); labelled {
		refuse(r.fset, n.Pos(), "labelled range over a map")
	}
	return b.String()
}

func (r *rw) selectStmt(n *ast.SelectStmt) string {
	if _, labelled := r.parent[n].(*ast.LabeledStmt); labelled {
		refuse(r.fset, n.Pos(), "labelled select")
	}
	sel := r.fresh("s")
	var pre, cases, arms []string
	hasDefault := "false"
	idx := 0
	for _, c := range n.Body.List {
		cc := c.(*ast.CommClause)
		var body strings.Builder
		for _, s := range cc.Body {
			body.WriteString(r.str(s))
			body.WriteString("\n")
		}
		if cc.Comm == nil {
			hasDefault = "true"
			arms = append(arms, "default:\n"+body.String())
			continue
		}
		ch := r.fresh("c")
		switch s := cc.Comm.(type) {
		case *ast.SendStmt:
			v := r.fresh("v")
			pre = append(pre, ch+" := "+r.str(s.Chan), v+" := "+r.str(s.Value))
			if r.isConstOrNil(s.Value) {
				pre = pre[:len(pre)-1]
				cases = append(cases, r.sched()+".SendCase("+ch+", "+r.str(s.Value)+")")
			} else {
				cases = append(cases, r.sched()+".SendCase("+ch+", "+v+")")
			}
			arms = append(arms, fmt.Sprintf("case %d:\n%s", idx, body.String()))
		case *ast.ExprStmt:
			u, ok := ast.Unparen(s.X).(*ast.UnaryExpr)
			if !ok || u.Op != token.ARROW {
				refuse(r.fset, s.Pos(), "unexpected select case")
				return r.generic(n)
			}
			pre = append(pre, ch+" := "+r.str(u.X))
			cases = append(cases, r.sched()+".RecvCase("+ch+")")
			arms = append(arms, fmt.Sprintf("case %d:\n%s", idx, body.String()))
		case *ast.AssignStmt:
			u, ok := ast.Unparen(s.Rhs[0]).(*ast.UnaryExpr)
			if !ok || u.Op != token.ARROW {
				refuse(r.fset, s.Pos(), "unexpected select case")
				return r.generic(n)
			}
			pre = append(pre, ch+" := "+r.str(u.X))
			cases = append(cases, r.sched()+".RecvCase("+ch+")")
			var bind string
			if len(s.Lhs) == 1 {
				bind = fmt.Sprintf("%s %s %s.GotFrom(%s, %s)", r.str(s.Lhs[0]), s.Tok, r.sched(), ch, sel)
			} else {
				bind = fmt.Sprintf("%s, %s %s %s.GotOKFrom(%s, %s)", r.str(s.Lhs[0]), r.str(s.Lhs[1]), s.Tok, r.sched(), ch, sel)
			}
			arms = append(arms, fmt.Sprintf("case %d:\n%s\n%s", idx, bind, body.String()))
		default:
			refuse(r.fset, cc.Pos(), "unexpected select case")
			return r.generic(n)
		}
		idx++
	}
	var b strings.Builder
	b.WriteString("{\n")
	for _, p := range pre {
		b.WriteString(p + "\n")
	}
	fmt.Fprintf(&b, "switch %s := %s.Select(%s", sel, r.sched(), hasDefault)
	for _, c := range cases {
		b.WriteString(", " + c)
	}
	fmt.Fprintf(&b, "); %s.Index {\n", sel)
	for _, a := range arms {
		b.WriteString(a)
	}
	b.WriteString("}\n}")
	return b.String()
}

// ---- monitored field accesses ------------------------------------------------------------

// monitoredField reports whether sel selects a field of a monitored struct type through an
// addressable path.
func (r *rw) monitoredField(sel *ast.SelectorExpr) bool {
	if len(r.monitor) == 0 {
		return false
	}
	s := r.info.Selections[sel]
	if s == nil || s.Kind() != types.FieldVal {
		return false
	}
	// the struct that declares the field (taking embedding into account)
	t := s.Recv()
	path := s.Index()
	for i, idx := range path {
		if p, ok := t.Underlying().(*types.Pointer); ok {
			t = p.Elem()
		}
		if i == len(path)-1 {
			if named, ok := t.(*types.Named); ok && named.Obj().Pkg() == r.pkg && (r.monitor[named.Obj().Name()] || r.monitor[named.Obj().Name()+"."+sel.Sel.Name]) {
				break
			}
			return false
		}
		st, ok := t.Underlying().(*types.Struct)
		if !ok {
			return false
		}
		t = st.Field(idx).Type()
	}
	// addressable: receiver is a pointer, or an addressable expression
	tv, ok := r.info.Types[sel.X]
	if !ok {
		return false
	}
	if _, isPtr := tv.Type.Underlying().(*types.Pointer); isPtr {
		return true
	}
	return tv.Addressable()
}

func (r *rw) monitoredRead(sel *ast.SelectorExpr) (string, bool) {
	if !r.monitoredField(sel) {
		return "", false
	}
	// skip: operand of &, LHS of assignment (handled there), selector on the left of a method value? fine.
	switch p := r.parent[sel].(type) {
	case *ast.UnaryExpr:
		if p.Op == token.AND {
			return "", false
		}
	case *ast.SelectorExpr:
		// x.f.g where x.f is a struct value: reading x.f entirely is an over-approximation that
		// could flag disjoint sub-field accesses; monitor only the innermost addressable field
		if p.X == sel {
			if s := r.info.Selections[p]; s != nil && s.Kind() == types.FieldVal {
				if _, isPtr := r.typeOf(sel).Underlying().(*types.Pointer); !isPtr {
					return "", false
				}
			}
		}
	}
	return "(*" + r.sched() + ".Rd(&" + r.generic(sel) + "))", true
}

// monitoredLHS rewrites an assignment target.
func (r *rw) monitoredLHS(e ast.Expr) (string, bool) {
	switch e := ast.Unparen(e).(type) {
	case *ast.SelectorExpr:
		if r.monitoredField(e) {
			return "(*" + r.sched() + ".Wr(&" + r.generic(e) + "))", true
		}
	case *ast.IndexExpr:
		if sel, ok := ast.Unparen(e.X).(*ast.SelectorExpr); ok && r.monitoredField(sel) {
			t := r.typeOf(sel)
			if t == nil {
				return "", false
			}
			switch t.Underlying().(type) {
			case *types.Map:
				return "(*" + r.sched() + ".Wr(&" + r.generic(sel) + "))[" + r.str(e.Index) + "]", true
			case *types.Slice:
				return "(*" + r.sched() + ".Wr(&(*" + r.sched() + ".Rd(&" + r.generic(sel) + "))[" + r.str(e.Index) + "]))", true
			}
		}
	}
	return "", false
}

func (r *rw) assign(n *ast.AssignStmt) (string, bool) {
	if len(r.monitor) == 0 {
		return "", false
	}
	any := false
	var lhs []string
	for _, l := range n.Lhs {
		if s, ok := r.monitoredLHS(l); ok && n.Tok != token.DEFINE {
			lhs = append(lhs, s)
			any = true
		} else {
			lhs = append(lhs, r.str(l))
		}
	}
	if !any {
		return "", false
	}
	var rhs []string
	for _, x := range n.Rhs {
		rhs = append(rhs, r.str(x))
	}
	return strings.Join(lhs, ", ") + " " + n.Tok.String() + " " + strings.Join(rhs, ", "), true
}
