//go:build verif

// Package vx is the small runtime shared by all verification harnesses: it reads the
// environment the vcheck driver sets (tier, shard, replay file, output path) and collects
// the counters, samples and violations that become the evidence file.
package vx

import (
	"encoding/json"
	"fmt"
	"os"
	"sort"
	"strconv"
	"strings"
	"sync"
	"time"
)

type Violation struct {
	Key      string `json:"key"`
	Message  string `json:"message"`
	Case     any    `json:"case,omitempty"`
	Scenario string `json:"scenario,omitempty"`
}

type Result struct {
	mu sync.Mutex

	Evaluations   int64            `json:"evaluations"`
	Nontrivial    int64            `json:"distinct_nontrivial"`
	States        int64            `json:"states,omitempty"`
	Transitions   int64            `json:"transitions,omitempty"`
	Validated     int64            `json:"traces_validated_against_impl"`
	Rule          string           `json:"rule"`
	Samples       []any            `json:"samples"`
	Exhaustive    bool             `json:"exhaustive"`
	Bound         string           `json:"bound_completed,omitempty"`
	Outcomes      int64            `json:"outcomes_distinct,omitempty"`
	Counters      map[string]int64 `json:"counters,omitempty"`
	Violations    []Violation      `json:"violations"`
	Notes         []string         `json:"notes,omitempty"`
	Unasserted    []string         `json:"unasserted,omitempty"`
	vioKeys       map[string]bool
	outcomeSet    map[string]bool
	nontrivialSet map[string]bool
	start         time.Time
	deadline      time.Time
}

func New(rule string) *Result {
	r := &Result{Rule: rule, Counters: map[string]int64{}, vioKeys: map[string]bool{}, outcomeSet: map[string]bool{},
		nontrivialSet: map[string]bool{}, Exhaustive: true, start: time.Now()}
	return r
}

func Tier() string {
	t := os.Getenv("VERIF_TIER")
	if t != "thorough" {
		return "quick"
	}
	return t
}

// Budget returns q or t (by tier) unless VERIF_BUDGET (seconds) overrides it.
func Budget(q, t time.Duration) time.Duration {
	if v, err := strconv.Atoi(os.Getenv("VERIF_BUDGET")); err == nil && v > 0 {
		return time.Duration(v) * time.Second
	}
	return Pick(q, t)
}

func Thorough() bool { return Tier() == "thorough" }

// Pick returns q in the quick tier and t in the thorough tier.
func Pick[T any](q, t T) T {
	if Thorough() {
		return t
	}
	return q
}

func Seed() int64 {
	n, _ := strconv.ParseInt(os.Getenv("VERIF_SEED"), 10, 64)
	return n
}

// Shard returns (index, count).
func Shard() (int, int) {
	s := os.Getenv("VERIF_SHARD")
	if s == "" {
		return 0, 1
	}
	a, b, ok := strings.Cut(s, "/")
	if !ok {
		return 0, 1
	}
	i, _ := strconv.Atoi(a)
	n, _ := strconv.Atoi(b)
	if n <= 0 {
		return 0, 1
	}
	return i, n
}

// Mine reports whether work item k belongs to this shard.
func Mine(k int) bool {
	i, n := Shard()
	return k%n == i
}

func ScratchDir() string {
	d := os.Getenv("VERIF_SCRATCH_DIR")
	if d == "" {
		d, _ = os.MkdirTemp("/var/tmp", "vx-")
	}
	return d
}

func CheckDir() string { return os.Getenv("VERIF_CHECK_DIR") }
func RepoDir() string {
	if d := os.Getenv("VERIF_REPO"); d != "" {
		return d
	}
	return "/repo"
}

// Replay returns the decoded "case" of the replay file, or nil when not replaying.
func Replay() (key string, raw json.RawMessage, ok bool) {
	p := os.Getenv("VERIF_REPLAY")
	if p == "" {
		return "", nil, false
	}
	b, err := os.ReadFile(p)
	if err != nil {
		panic(err)
	}
	var f struct {
		Key  string          `json:"key"`
		Case json.RawMessage `json:"case"`
	}
	if err := json.Unmarshal(b, &f); err != nil {
		panic(err)
	}
	return f.Key, f.Case, true
}

func (r *Result) Eval(n int64) {
	r.mu.Lock()
	r.Evaluations += n
	r.mu.Unlock()
}

func (r *Result) Count(name string, n int64) {
	r.mu.Lock()
	r.Counters[name] += n
	r.mu.Unlock()
}

// NontrivialKey counts a distinct non-trivial case (by key).
func (r *Result) NontrivialKey(key string) {
	r.mu.Lock()
	if !r.nontrivialSet[key] {
		r.nontrivialSet[key] = true
		r.Nontrivial++
	}
	r.mu.Unlock()
}

// NontrivialN adds n cases already known to be distinct.
func (r *Result) NontrivialN(n int64) {
	r.mu.Lock()
	r.Nontrivial += n
	r.mu.Unlock()
}

func (r *Result) Outcome(key string) {
	r.mu.Lock()
	if !r.outcomeSet[key] {
		r.outcomeSet[key] = true
		r.Outcomes++
	}
	r.mu.Unlock()
}

func (r *Result) Sample(s any) {
	r.mu.Lock()
	if len(r.Samples) < 6 {
		r.Samples = append(r.Samples, s)
	}
	r.mu.Unlock()
}

func (r *Result) Note(format string, a ...any) {
	r.mu.Lock()
	if len(r.Notes) < 50 {
		r.Notes = append(r.Notes, fmt.Sprintf(format, a...))
	}
	r.mu.Unlock()
}

func (r *Result) Unassert(s string) {
	r.mu.Lock()
	if len(r.Unasserted) < 40 {
		r.Unasserted = append(r.Unasserted, s)
	}
	r.mu.Unlock()
}

// Violate records a violation; duplicates by key are dropped. Returns true if new.
func (r *Result) Violate(key, msg string, c any) bool {
	r.mu.Lock()
	defer r.mu.Unlock()
	if r.vioKeys[key] {
		return false
	}
	r.vioKeys[key] = true
	if len(r.Violations) < 200 {
		r.Violations = append(r.Violations, Violation{Key: key, Message: msg, Case: c})
	}
	return true
}

func (r *Result) NumViolations() int {
	r.mu.Lock()
	defer r.mu.Unlock()
	return len(r.vioKeys)
}

func (r *Result) NotExhaustive(why string) {
	r.mu.Lock()
	r.Exhaustive = false
	if len(r.Notes) < 50 {
		r.Notes = append(r.Notes, "not exhaustive: "+why)
	}
	r.mu.Unlock()
}

// SetBudget installs an internal deadline; Expired() turns true afterwards. A harness that
// stops because of it must call NotExhaustive.
func (r *Result) SetBudget(d time.Duration) { r.deadline = r.start.Add(d) }
func (r *Result) Expired() bool {
	return !r.deadline.IsZero() && time.Now().After(r.deadline)
}

func (r *Result) Write() {
	r.mu.Lock()
	defer r.mu.Unlock()
	sort.Slice(r.Violations, func(i, j int) bool { return r.Violations[i].Key < r.Violations[j].Key })
	if r.Samples == nil {
		r.Samples = []any{}
	}
	if r.Violations == nil {
		r.Violations = []Violation{}
	}
	b, err := json.MarshalIndent(r, "", " ")
	if err != nil {
		panic(err)
	}
	p := os.Getenv("VERIF_OUT")
	if p == "" {
		os.Stdout.Write(b)
		return
	}
	if err := os.WriteFile(p, b, 0o644); err != nil {
		panic(err)
	}
}

// Catch runs f and converts a panic into an error string (empty = no panic).
func Catch(f func()) (msg string) {
	defer func() {
		if e := recover(); e != nil {
			msg = fmt.Sprint(e)
			if msg == "" {
				msg = "panic"
			}
		}
	}()
	f()
	return ""
}
