//go:build verif

// Package vtime stands in for package time in the rewritten cache files: the clock is the
// virtual clock of the in-memory file system, owned by the harness.
package vtime

import (
	"time"

	"honnef.co/go/tools/internal/verifx/vfs"
)

type Time = time.Time
type Duration = time.Duration

const (
	Nanosecond  = time.Nanosecond
	Microsecond = time.Microsecond
	Millisecond = time.Millisecond
	Second      = time.Second
	Minute      = time.Minute
	Hour        = time.Hour
)

func Now() Time                  { return vfs.FS.Now }
func Unix(sec, nsec int64) Time  { return time.Unix(sec, nsec) }
func Since(t Time) Duration      { return vfs.FS.Now.Sub(t) }
func Sleep(d Duration)           { vfs.FS.Now = vfs.FS.Now.Add(d) }
func Duration_(n int64) Duration { return Duration(n) }
