//go:build verif

// Package vfs is engine E3: an in-memory file system with the subset of package os used by
// lintcmd/cache, internal/renameio and internal/robustio. Every operation is a *step*: a
// scheduling point of engine E1 (when an execution is active), a possible kill point of the
// calling process, and a possible crash point in sequential fault enumeration. Writes are
// split into chunks (down to single bytes) so that torn writes are visible.
//
// Page-cache semantics: a completed step is visible to every process at once and survives
// the death of the writer (the property speaks of process death, not power loss).
package vfs

import (
	"io/fs"
	"path/filepath"
	"sort"
	"strings"
	"time"

	"honnef.co/go/tools/internal/verifx/sched"
)

type Inode struct {
	Data  []byte
	Mtime time.Time
	Dir   bool
	Mode  fs.FileMode
	N     int // directories: number of direct children (maintained by Link/Unlink)
}

type FileSys struct {
	Files map[string]*Inode
	Now   time.Time

	// fault / exploration controls
	Steps     int  // steps performed since ResetCounters
	CrashAt   int  // sequential mode: panic(Crashed) when Steps reaches this value (0: never)
	Frozen    bool // after a crash: every later operation is a no-op returning an error
	Chunk     int  // write granularity in bytes (<=0: 1)
	KillProcs map[int]bool
	Kills     int
	MaxKills  int
	Trace     []string
	TraceOn   bool
	RandSeq   map[int]int // per-process counter behind vrand
	// Cold, if set, names paths that no other process of the scenario ever touches: an operation
	// on such a path commutes with every operation of the other processes, so it is executed
	// without a scheduling point or kill choice (hand-made partial-order reduction).
	Cold func(path string) bool
}

// Crashed is the panic value used for sequential crash injection.
type Crashed struct{ Step int }

var FS = New()

func New() *FileSys {
	return &FileSys{Files: map[string]*Inode{"/": {Dir: true}}, Now: time.Unix(1_700_000_000, 0), Chunk: 1, RandSeq: map[int]int{}}
}

// Reset installs a fresh empty file system.
func Reset() *FileSys { FS = New(); return FS }

// Snapshot returns a deep copy of the file contents (controls are not copied).
func (f *FileSys) Snapshot() map[string]*Inode {
	m := make(map[string]*Inode, len(f.Files))
	for k, v := range f.Files {
		c := *v
		c.Data = append([]byte(nil), v.Data...)
		m[k] = &c
	}
	return m
}

// Restore replaces the file contents by a deep copy of snap.
func (f *FileSys) Restore(snap map[string]*Inode) {
	f.Files = make(map[string]*Inode, len(snap))
	for k, v := range snap {
		c := *v
		c.Data = append([]byte(nil), v.Data...)
		f.Files[k] = &c
	}
}

// RegularFiles lists the paths of all regular files, sorted.
func (f *FileSys) RegularFiles() []string {
	var out []string
	for k, v := range f.Files {
		if !v.Dir {
			out = append(out, k)
		}
	}
	sort.Strings(out)
	return out
}

// Digest is a canonical description of the regular files (name, content); mtimes are left
// out unless withTimes is set.
func (f *FileSys) Digest(withTimes bool) string {
	var b strings.Builder
	for _, p := range f.RegularFiles() {
		n := f.Files[p]
		b.WriteString(p)
		b.WriteByte('=')
		b.WriteString(string(n.Data))
		if withTimes {
			b.WriteString("@" + n.Mtime.Format(time.RFC3339))
		}
		b.WriteByte(';')
	}
	return b.String()
}

func Clean(p string) string { return filepath.Clean(p) }

// Step is called by every file-system operation before it takes effect. It returns false if
// the caller must not perform the operation (dead process / frozen file system).
func (f *FileSys) Step(op, path string) bool {
	if f.Frozen || sched.Dead() {
		return false
	}
	f.Steps++
	if f.TraceOn && len(f.Trace) < 2000 {
		f.Trace = append(f.Trace, op+" "+path)
	}
	if f.CrashAt > 0 && f.Steps == f.CrashAt {
		f.Frozen = true
		panic(Crashed{f.Steps})
	}
	if sched.Active() && (f.Cold == nil || !f.Cold(path)) {
		what := op
		sched.Yield(nil, what)
		if sched.Dead() {
			return false
		}
		p := sched.Proc()
		if f.KillProcs[p] && f.Kills < f.MaxKills {
			if sched.Choose(2, "kill before "+what) == 1 {
				f.Kills++
				sched.KillProc(p) // does not return
			}
		}
	}
	return true
}

// Link enters ino under path p (replacing an existing entry) and keeps the parent's child count.
func (f *FileSys) Link(p string, ino *Inode) {
	if _, ok := f.Files[p]; !ok {
		if d := f.Files[filepath.Dir(p)]; d != nil {
			d.N++
		}
	}
	f.Files[p] = ino
}

// Unlink removes the entry p (harnesses use it to model deleted files).
func (f *FileSys) Unlink(p string) {
	if _, ok := f.Files[p]; ok {
		delete(f.Files, p)
		if d := f.Files[filepath.Dir(p)]; d != nil {
			d.N--
		}
	}
}

func (f *FileSys) lookup(p string) *Inode { return f.Files[Clean(p)] }

func (f *FileSys) chunk() int {
	if f.Chunk <= 0 {
		return 1
	}
	return f.Chunk
}
