//go:build verif

// Package vrand stands in for math/rand in internal/renameio (temporary file names): a
// per-process counter, so that names are deterministic and two processes can collide only
// through the O_EXCL retry loop, as with real random names.
package vrand

import (
	"honnef.co/go/tools/internal/verifx/sched"
	"honnef.co/go/tools/internal/verifx/vfs"
)

func Intn(n int) int {
	p := sched.Proc()
	vfs.FS.RandSeq[p]++
	return (p*1000 + vfs.FS.RandSeq[p]) % n
}

func Int63n(n int64) int64 { return int64(Intn(int(n))) }
