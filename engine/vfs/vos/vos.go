//go:build verif

// Package vos stands in for package os in the files of lintcmd/cache, internal/renameio and
// internal/robustio when they are compiled for the model-checking harness (the import is
// rewritten mechanically from the current source at check time).
package vos

import (
	"errors"
	"io"
	"io/fs"
	"os"
	"path/filepath"
	"sort"
	"strings"
	"syscall"
	"time"

	"honnef.co/go/tools/internal/verifx/vfs"
)

type FileMode = fs.FileMode
type FileInfo = fs.FileInfo
type PathError = fs.PathError

const (
	O_RDONLY = os.O_RDONLY
	O_WRONLY = os.O_WRONLY
	O_RDWR   = os.O_RDWR
	O_APPEND = os.O_APPEND
	O_CREATE = os.O_CREATE
	O_EXCL   = os.O_EXCL
	O_SYNC   = os.O_SYNC
	O_TRUNC  = os.O_TRUNC

	ModePerm = fs.ModePerm
)

var (
	Stderr = os.Stderr
	Stdout = os.Stdout
	Stdin  = os.Stdin

	ErrNotExist = fs.ErrNotExist
	ErrExist    = fs.ErrExist
	errDead     = errors.New("vfs: process is dead")
)

func IsExist(err error) bool    { return errors.Is(err, fs.ErrExist) }
func IsNotExist(err error) bool { return errors.Is(err, fs.ErrNotExist) }
func Getenv(k string) string    { return os.Getenv(k) }
func UserCacheDir() (string, error) {
	return "/vcache", nil
}

type info struct {
	name string
	ino  vfs.Inode
}

func (i info) Name() string { return i.name }
func (i info) Size() int64  { return int64(len(i.ino.Data)) }
func (i info) Mode() fs.FileMode {
	if i.ino.Dir {
		return fs.ModeDir | 0777
	}
	return 0666
}
func (i info) ModTime() time.Time { return i.ino.Mtime }
func (i info) IsDir() bool        { return i.ino.Dir }
func (i info) Sys() any           { return nil }

func perr(op, path string, err error) error { return &fs.PathError{Op: op, Path: path, Err: err} }

func Stat(name string) (FileInfo, error) {
	f := vfs.FS
	if !f.Step("stat", name) {
		return nil, perr("stat", name, errDead)
	}
	n := f.Files[vfs.Clean(name)]
	if n == nil {
		return nil, perr("stat", name, syscall.ENOENT)
	}
	c := *n
	c.Data = n.Data[:len(n.Data):len(n.Data)]
	return info{filepath.Base(name), c}, nil
}

func Lstat(name string) (FileInfo, error) { return Stat(name) }

func MkdirAll(path string, perm FileMode) error {
	f := vfs.FS
	if f.Frozen {
		return perr("mkdir", path, errDead)
	}
	p := vfs.Clean(path)
	if n := f.Files[p]; n != nil && n.Dir {
		return nil
	}
	for p != "/" && p != "." {
		if n := f.Files[p]; n != nil {
			if !n.Dir {
				return perr("mkdir", path, syscall.ENOTDIR)
			}
		} else {
			f.Link(p, &vfs.Inode{Dir: true, Mtime: f.Now})
		}
		p = filepath.Dir(p)
	}
	return nil
}

type File struct {
	name   string
	ino    *vfs.Inode
	off    int64
	flag   int
	closed bool
	isDir  bool
}

func Open(name string) (*File, error) { return OpenFile(name, O_RDONLY, 0) }

func Create(name string) (*File, error) { return OpenFile(name, O_RDWR|O_CREATE|O_TRUNC, 0666) }

func OpenFile(name string, flag int, perm FileMode) (*File, error) {
	f := vfs.FS
	if !f.Step("open", name) {
		return nil, perr("open", name, errDead)
	}
	p := vfs.Clean(name)
	n := f.Files[p]
	if n == nil {
		if flag&O_CREATE == 0 {
			return nil, perr("open", name, syscall.ENOENT)
		}
		if d := f.Files[filepath.Dir(p)]; d == nil || !d.Dir {
			return nil, perr("open", name, syscall.ENOENT)
		}
		n = &vfs.Inode{Mtime: f.Now}
		f.Link(p, n)
	} else if flag&O_CREATE != 0 && flag&O_EXCL != 0 {
		return nil, perr("open", name, syscall.EEXIST)
	}
	if n.Dir {
		return &File{name: name, ino: n, isDir: true, flag: flag}, nil
	}
	if flag&O_TRUNC != 0 && len(n.Data) > 0 {
		n.Data = nil
		n.Mtime = f.Now
	}
	return &File{name: name, ino: n, flag: flag}, nil
}

func (f *File) Name() string { return f.name }

func (f *File) Close() error {
	if f == nil || f.closed {
		return os.ErrClosed
	}
	f.closed = true
	return nil
}

func (f *File) Sync() error {
	if !vfs.FS.Step("sync", f.name) {
		return errDead
	}
	return nil
}

func (f *File) Write(b []byte) (int, error) {
	fsys := vfs.FS
	if f.closed {
		return 0, os.ErrClosed
	}
	if f.flag&(O_WRONLY|O_RDWR) == 0 {
		return 0, perr("write", f.name, syscall.EBADF)
	}
	done := 0
	ch := fsysChunk()
	for done < len(b) {
		n := len(b) - done
		if n > ch {
			n = ch
		}
		if !fsys.Step("write", f.name) {
			return done, errDead
		}
		if f.flag&O_APPEND != 0 {
			f.off = int64(len(f.ino.Data))
		}
		for int64(len(f.ino.Data)) < f.off+int64(n) {
			f.ino.Data = append(f.ino.Data, 0)
		}
		copy(f.ino.Data[f.off:], b[done:done+n])
		f.off += int64(n)
		f.ino.Mtime = fsys.Now
		done += n
	}
	return done, nil
}

func fsysChunk() int {
	if vfs.FS.Chunk <= 0 {
		return 1
	}
	return vfs.FS.Chunk
}

func (f *File) WriteString(s string) (int, error) { return f.Write([]byte(s)) }

func (f *File) Read(b []byte) (int, error) {
	if f.closed {
		return 0, os.ErrClosed
	}
	if !vfs.FS.Step("read", f.name) {
		return 0, errDead
	}
	if f.off >= int64(len(f.ino.Data)) {
		return 0, io.EOF
	}
	n := copy(b, f.ino.Data[f.off:])
	f.off += int64(n)
	return n, nil
}

func (f *File) Seek(offset int64, whence int) (int64, error) {
	switch whence {
	case io.SeekStart:
		f.off = offset
	case io.SeekCurrent:
		f.off += offset
	case io.SeekEnd:
		f.off = int64(len(f.ino.Data)) + offset
	}
	return f.off, nil
}

func (f *File) Truncate(size int64) error {
	if f.closed {
		return os.ErrClosed
	}
	if !vfs.FS.Step("truncate", f.name) {
		return errDead
	}
	truncate(f.ino, size)
	return nil
}

func truncate(n *vfs.Inode, size int64) {
	if int64(len(n.Data)) > size {
		n.Data = n.Data[:size]
	} else {
		for int64(len(n.Data)) < size {
			n.Data = append(n.Data, 0)
		}
	}
	n.Mtime = vfs.FS.Now
}

func (f *File) Stat() (FileInfo, error) {
	if !vfs.FS.Step("fstat", f.name) {
		return nil, errDead
	}
	c := *f.ino
	return info{filepath.Base(f.name), c}, nil
}

func (f *File) Readdirnames(n int) ([]string, error) {
	fsys := vfs.FS
	if !fsys.Step("readdir", f.name) {
		return nil, errDead
	}
	dir := vfs.Clean(f.name)
	var names []string
	if f.ino.N == 0 {
		return nil, nil
	}
	pre := dir + "/"
	for p := range fsys.Files {
		if strings.HasPrefix(p, pre) && !strings.Contains(p[len(pre):], "/") {
			names = append(names, p[len(pre):])
		}
	}
	sort.Strings(names)
	return names, nil
}

func Remove(name string) error {
	f := vfs.FS
	if !f.Step("remove", name) {
		return perr("remove", name, errDead)
	}
	p := vfs.Clean(name)
	if f.Files[p] == nil {
		return perr("remove", name, syscall.ENOENT)
	}
	f.Unlink(p)
	return nil
}

func RemoveAll(path string) error {
	f := vfs.FS
	if !f.Step("removeall", path) {
		return perr("removeall", path, errDead)
	}
	p := vfs.Clean(path)
	for k := range f.Files {
		if k == p || strings.HasPrefix(k, p+"/") {
			f.Unlink(k)
		}
	}
	return nil
}

func Rename(oldpath, newpath string) error {
	f := vfs.FS
	if !f.Step("rename", newpath) {
		return perr("rename", oldpath, errDead)
	}
	o, n := vfs.Clean(oldpath), vfs.Clean(newpath)
	ino := f.Files[o]
	if ino == nil {
		return &os.LinkError{Op: "rename", Old: oldpath, New: newpath, Err: syscall.ENOENT}
	}
	f.Unlink(o)
	f.Link(n, ino)
	return nil
}

func Chtimes(name string, atime, mtime time.Time) error {
	f := vfs.FS
	if !f.Step("chtimes", name) {
		return perr("chtimes", name, errDead)
	}
	n := f.Files[vfs.Clean(name)]
	if n == nil {
		return perr("chtimes", name, syscall.ENOENT)
	}
	n.Mtime = mtime
	return nil
}

func ReadFile(name string) ([]byte, error) {
	f, err := Open(name)
	if err != nil {
		return nil, err
	}
	defer f.Close()
	if f.isDir {
		return nil, perr("read", name, syscall.EISDIR)
	}
	var out []byte
	buf := make([]byte, 512)
	for {
		n, err := f.Read(buf)
		out = append(out, buf[:n]...)
		if err == io.EOF {
			return out, nil
		}
		if err != nil {
			return out, err
		}
	}
}

func WriteFile(name string, data []byte, perm FileMode) error {
	f, err := OpenFile(name, O_WRONLY|O_CREATE|O_TRUNC, perm)
	if err != nil {
		return err
	}
	_, err = f.Write(data)
	if err1 := f.Close(); err1 != nil && err == nil {
		err = err1
	}
	return err
}
