//go:build verif

package sched

// Modelled channels. The instrumenter (E2) rewrites `chan T` to *Chan[T] and channel
// operations to these methods. A nil *Chan[T] behaves like a nil channel.

type waiter[T any] struct {
	t     *thread
	val   T    // value offered by a parked sender / delivered to a parked receiver
	done  bool // the rendezvous has been completed by the partner
	ok    bool
	sel   *selState // non-nil: this waiter belongs to a select
	index int       // case index within the select
	send  bool
}

type Chan[T any] struct {
	buf    []T
	cap    int
	closed bool
	recvq  []*waiter[T] // parked receivers (unbuffered rendezvous / empty buffer)
	sendq  []*waiter[T] // parked senders
	hb     Sync
	slotHB []VC // per buffered element: sender's clock
}

func MakeChan[T any](n int) *Chan[T] { return &Chan[T]{cap: n} }

func (c *Chan[T]) Len() int {
	if c == nil {
		return 0
	}
	return len(c.buf)
}
func (c *Chan[T]) Cap() int {
	if c == nil {
		return 0
	}
	return c.cap
}

func (c *Chan[T]) canSend(self *thread) bool {
	if c == nil {
		return false
	}
	return c.closed || len(c.buf) < c.cap || c.hasParked(c.recvq, self)
}

func (c *Chan[T]) canRecv(self *thread) bool {
	if c == nil {
		return false
	}
	return len(c.buf) > 0 || c.closed || c.hasParked(c.sendq, self)
}

// hasParked: a partner is parked on this channel and still waiting (for selects: not yet
// fired on another case).
func (c *Chan[T]) hasParked(q []*waiter[T], self *thread) bool {
	for _, w := range q {
		if w.done || w.t.dead || w.t.done {
			continue
		}
		if w.sel != nil && w.sel.fired {
			continue
		}
		if w.t == self {
			continue
		}
		return true
	}
	return false
}

func (c *Chan[T]) popParked(q *[]*waiter[T], self *thread) *waiter[T] {
	for i, w := range *q {
		if w.done || w.t.dead || w.t.done || (w.sel != nil && w.sel.fired) || w.t == self {
			continue
		}
		*q = append((*q)[:i:i], (*q)[i+1:]...)
		return w
	}
	return nil
}

func remove[T any](q *[]*waiter[T], w *waiter[T]) {
	for i, x := range *q {
		if x == w {
			*q = append((*q)[:i:i], (*q)[i+1:]...)
			return
		}
	}
}

func (c *Chan[T]) Send(v T) {
	if Dead() {
		return
	}
	if s == nil || s.cur == nil {
		// outside an execution: only buffered, non-blocking use is supported
		if c == nil || c.closed || len(c.buf) >= c.cap {
			panic("sched: channel send would block or panic outside a scheduled execution")
		}
		c.buf = append(c.buf, v)
		c.slotHB = append(c.slotHB, nil)
		return
	}
	t := s.cur
	w := &waiter[T]{t: t, val: v, send: true}
	if c != nil {
		c.sendq = append(c.sendq, w)
	}
	Yield(func() bool { return w.done || c.canSend(t) }, "chan send")
	if c != nil {
		remove(&c.sendq, w)
	}
	if Dead() {
		return
	}
	if w.done {
		// a receiver took the value while we were parked
		t.vc = t.vc.join(c.hb.vc)
		return
	}
	c.sendNow(v)
}

// sendNow performs an enabled send as the running thread.
func (c *Chan[T]) sendNow(v T) {
	t := s.cur
	if c.closed {
		panic("send on closed channel")
	}
	if r := c.popParked(&c.recvq, t); r != nil {
		// hand the value to a parked receiver (rendezvous or empty buffer)
		r.val, r.ok, r.done = v, true, true
		if r.sel != nil {
			r.sel.fired = true
			r.sel.index = r.index
		}
		// sender -> receiver edge, and (unbuffered) receiver -> sender completion edge
		r.t.vc = r.t.vc.join(t.vc)
		t.vc = t.vc.tick(t.id)
		if c.cap == 0 {
			t.vc = t.vc.join(r.t.vc)
		}
		return
	}
	c.buf = append(c.buf, v)
	c.slotHB = append(c.slotHB, t.vc.clone())
	t.vc = t.vc.tick(t.id)
}

func (c *Chan[T]) Recv() T {
	v, _ := c.Recv2()
	return v
}

func (c *Chan[T]) Recv2() (T, bool) {
	var zero T
	if Dead() {
		return zero, false
	}
	if s == nil || s.cur == nil {
		if c == nil || len(c.buf) == 0 && !c.closed {
			panic("sched: channel receive would block outside a scheduled execution")
		}
		if len(c.buf) > 0 {
			v := c.buf[0]
			c.buf = c.buf[1:]
			c.slotHB = c.slotHB[1:]
			return v, true
		}
		return zero, false
	}
	t := s.cur
	w := &waiter[T]{t: t}
	if c != nil {
		c.recvq = append(c.recvq, w)
	}
	Yield(func() bool { return w.done || c.canRecv(t) }, "chan recv")
	if c != nil {
		remove(&c.recvq, w)
	}
	if Dead() {
		return zero, false
	}
	if w.done {
		return w.val, w.ok
	}
	return c.recvNow()
}

func (c *Chan[T]) recvNow() (T, bool) {
	var zero T
	t := s.cur
	if len(c.buf) > 0 {
		v := c.buf[0]
		c.buf = c.buf[1:]
		t.vc = t.vc.join(c.slotHB[0])
		c.slotHB = c.slotHB[1:]
		// a parked sender can now move its value into the buffer
		if sd := c.popParked(&c.sendq, t); sd != nil {
			c.buf = append(c.buf, sd.val)
			c.slotHB = append(c.slotHB, sd.t.vc.clone())
			sd.done = true
			if sd.sel != nil {
				sd.sel.fired = true
				sd.sel.index = sd.index
			}
		}
		return v, true
	}
	if sd := c.popParked(&c.sendq, t); sd != nil {
		// rendezvous with a parked sender
		sd.done = true
		if sd.sel != nil {
			sd.sel.fired = true
			sd.sel.index = sd.index
		}
		t.vc = t.vc.join(sd.t.vc)
		c.hb.vc = c.hb.vc.join(t.vc) // receive happens before the send completes
		t.vc = t.vc.tick(t.id)
		return sd.val, true
	}
	if c.closed {
		t.vc = t.vc.join(c.hb.vc)
		return zero, false
	}
	panic("sched: recvNow on a channel that is not ready")
}

func (c *Chan[T]) Close() {
	if Dead() {
		return
	}
	if c == nil {
		panic("close of nil channel")
	}
	Yield(nil, "chan close")
	if Dead() {
		return
	}
	if c.closed {
		panic("close of closed channel")
	}
	c.closed = true
	if s != nil && s.cur != nil {
		c.hb.vc = c.hb.vc.join(s.cur.vc)
		s.cur.vc = s.cur.vc.tick(s.cur.id)
	}
}

// ---------------------------------------------------------------------------------------
// select

type selState struct {
	fired bool
	index int
}

// SelCase is one case of a select statement.
type SelCase interface {
	ready(self *thread) bool
	park(t *thread, st *selState, index int)
	unpark()
	fire() any // perform the operation as the running thread; returns the received (value, ok) pair for receives
	result() any
}

type recvCase[T any] struct {
	c *Chan[T]
	w *waiter[T]
}
type sendCase[T any] struct {
	c *Chan[T]
	v T
	w *waiter[T]
}

type RecvResult[T any] struct {
	V  T
	OK bool
}

func RecvCase[T any](c *Chan[T]) SelCase      { return &recvCase[T]{c: c} }
func SendCase[T any](c *Chan[T], v T) SelCase { return &sendCase[T]{c: c, v: v} }

func (r *recvCase[T]) ready(self *thread) bool { return r.c != nil && r.c.canRecv(self) }
func (r *recvCase[T]) park(t *thread, st *selState, i int) {
	if r.c == nil {
		return
	}
	r.w = &waiter[T]{t: t, sel: st, index: i}
	r.c.recvq = append(r.c.recvq, r.w)
}
func (r *recvCase[T]) unpark() {
	if r.c != nil && r.w != nil {
		remove(&r.c.recvq, r.w)
	}
}
func (r *recvCase[T]) fire() any {
	v, ok := r.c.recvNow()
	return RecvResult[T]{v, ok}
}
func (r *recvCase[T]) result() any { return RecvResult[T]{r.w.val, r.w.ok} }

func (c *sendCase[T]) ready(self *thread) bool { return c.c != nil && c.c.canSend(self) }
func (c *sendCase[T]) park(t *thread, st *selState, i int) {
	if c.c == nil {
		return
	}
	c.w = &waiter[T]{t: t, val: c.v, send: true, sel: st, index: i}
	c.c.sendq = append(c.c.sendq, c.w)
}
func (c *sendCase[T]) unpark() {
	if c.c != nil && c.w != nil {
		remove(&c.c.sendq, c.w)
	}
}
func (c *sendCase[T]) fire() any   { c.c.sendNow(c.v); return nil }
func (c *sendCase[T]) result() any { return nil }

// Selected is the outcome of a select: the index of the chosen case (-1: default) and, for a
// receive case, its RecvResult.
type Selected struct {
	Index int
	Value any
}

// Got extracts the received value of a chosen receive case.
func Got[T any](sel Selected) T { return sel.Value.(RecvResult[T]).V }
func GotOK[T any](sel Selected) (T, bool) {
	r := sel.Value.(RecvResult[T])
	return r.V, r.OK
}

// Select models a select statement. Every ready case is an alternative of an environment
// choice (Go picks uniformly at random); choosing another than the first ready one costs a
// deviation.
func Select(hasDefault bool, cases ...SelCase) Selected {
	if Dead() {
		return Selected{Index: -1}
	}
	var selfT *thread
	if s != nil {
		selfT = s.cur
	}
	if s == nil || s.cur == nil {
		for i, c := range cases {
			if c.ready(selfT) {
				return Selected{Index: i, Value: c.fire()}
			}
		}
		if hasDefault {
			return Selected{Index: -1}
		}
		panic("sched: select would block outside a scheduled execution")
	}
	t := s.cur
	st := &selState{}
	for i, c := range cases {
		c.park(t, st, i)
	}
	anyReady := func() bool {
		if st.fired {
			return true
		}
		for _, c := range cases {
			if c.ready(selfT) {
				return true
			}
		}
		return false
	}
	if hasDefault {
		Yield(nil, "select")
	} else {
		Yield(anyReady, "select")
	}
	for _, c := range cases {
		c.unpark()
	}
	if Dead() {
		return Selected{Index: -1}
	}
	if st.fired {
		return Selected{Index: st.index, Value: cases[st.index].result()}
	}
	var ready []int
	for i, c := range cases {
		if c.ready(selfT) {
			ready = append(ready, i)
		}
	}
	if len(ready) == 0 {
		return Selected{Index: -1} // default
	}
	k := 0
	if len(ready) > 1 {
		k = Choose(len(ready), "select case")
	}
	i := ready[k]
	return Selected{Index: i, Value: cases[i].fire()}
}
