//go:build verif

package sched

import (
	"fmt"
	"reflect"
	"sort"
	"unsafe"
)

// Rd / Wr are inserted by the instrumenter around accesses to monitored struct fields.
func Rd[T any](p *T) *T { ReadAt(uintptr(unsafe.Pointer(p)), 2); return p }
func Wr[T any](p *T) *T { WriteAt(uintptr(unsafe.Pointer(p)), 2); return p }

func GotFrom[T any](_ *Chan[T], s Selected) T { return s.Value.(RecvResult[T]).V }
func GotOKFrom[T any](_ *Chan[T], s Selected) (T, bool) {
	r := s.Value.(RecvResult[T])
	return r.V, r.OK
}

// KeyString gives map keys a canonical, execution-independent name (harnesses install it for
// pointer-like keys, e.g. *loader.PackageSpec -> its ID). It must be injective on the keys
// of one map.
var KeyString func(k any) (string, bool)

func keyString(k any) string {
	if KeyString != nil {
		if s, ok := KeyString(k); ok {
			return s
		}
	}
	v := reflect.ValueOf(k)
	switch v.Kind() {
	case reflect.Pointer, reflect.Chan, reflect.Func, reflect.UnsafePointer, reflect.Interface, reflect.Map, reflect.Slice:
		panic(fmt.Sprintf("sched.MapKeys: no canonical name for map key of type %T (install sched.KeyString)", k))
	case reflect.Struct:
		for i := 0; i < v.NumField(); i++ {
			switch v.Field(i).Kind() {
			case reflect.Pointer, reflect.Chan, reflect.Func, reflect.UnsafePointer, reflect.Interface, reflect.Map, reflect.Slice:
				panic(fmt.Sprintf("sched.MapKeys: no canonical name for map key of type %T (install sched.KeyString)", k))
			}
		}
	}
	return fmt.Sprintf("%v", k)
}

// MapKeys returns the keys of m in an order chosen by the environment: the default is the
// canonical (sorted by name) order; every departure costs one deviation. Outside a scheduled
// execution the canonical order is returned.
func MapKeys[K comparable, V any](m map[K]V) []K {
	type kn struct {
		k K
		n string
	}
	if len(m) == 0 {
		return nil
	}
	ks := make([]kn, 0, len(m))
	for k := range m {
		ks = append(ks, kn{k, ""})
	}
	if len(ks) > 1 {
		for i := range ks {
			ks[i].n = keyString(ks[i].k)
		}
		sort.Slice(ks, func(i, j int) bool { return ks[i].n < ks[j].n })
		for i := 1; i < len(ks); i++ {
			if ks[i].n == ks[i-1].n {
				panic(fmt.Sprintf("sched.MapKeys: canonical names collide: %q", ks[i].n))
			}
		}
	}
	out := make([]K, 0, len(ks))
	if Active() && !Dead() && len(ks) > 1 {
		rest := ks
		for len(rest) > 1 {
			c := Choose(len(rest), "map order")
			out = append(out, rest[c].k)
			rest = append(rest[:c:c], rest[c+1:]...)
		}
		out = append(out, rest[0].k)
		return out
	}
	for _, k := range ks {
		out = append(out, k.k)
	}
	return out
}
