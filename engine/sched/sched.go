//go:build verif

// Package sched is engine E1: a cooperative scheduler for real goroutines plus a stateless,
// deviation-bounded depth-first explorer (iterative context bounding).
//
// Every goroutine of the code under test is a real goroutine that runs only while it is the
// scheduler's current thread. Visible operations (spawn, channel operations, mutexes,
// wait groups, atomics, file-system steps, environment choices) call into this package;
// enabledness is computed from modelled object state, so blocking is visible: no enabled
// thread while some thread is unfinished is a deadlock.
//
// Only one execution runs at a time per process (the state is a package-level singleton);
// parallelism comes from sharding the search over processes.
package sched

import (
	"fmt"
	"runtime"
	"runtime/debug"
	"strings"
	"sync"
)

// ---------------------------------------------------------------------------------------
// Execution state

type thread struct {
	id      int
	name    string
	proc    int
	wake    chan struct{}
	enabled func() bool // nil: runnable
	what    string
	started bool
	done    bool
	dead    bool // killed or execution aborted: all further operations are no-ops
	exited  bool
	vc      VC
	local   map[any]any
}

// PointKind distinguishes what a recorded choice point chose between.
type PointKind uint8

const (
	KThread PointKind = iota // which thread runs next
	KEnv                     // an environment answer (map order, kill, tear, error injection)
)

type Point struct {
	Kind       PointKind
	N          int // number of alternatives
	Chosen     int
	CurEnabled bool   // KThread: alternative 0 is the running thread (so any other choice is a preemption)
	What       string // description of the operation / choice
	Thread     int    // thread making the choice (KEnv) or running before it (KThread)
}

type Failure struct {
	Kind string // deadlock | crash | race | assert | horizon | nondeterminism | panic
	Msg  string
}

func (f *Failure) String() string { return f.Kind + ": " + f.Msg }

type Exec struct {
	Choices []int
	Points  []Point
	Steps   int
	Failure *Failure
	Log     []string // harness-visible event log (optional)
	Races   []string
	Threads int
}

type state struct {
	threads  []*thread
	cur      *thread
	prefix   []int
	x        *Exec
	maxSteps int
	finished chan struct{}
	over     bool
	wg       sync.WaitGroup
	nextObj  int
	shadow   map[uintptr]*shadowCell
	syncs    map[uintptr]*Sync
	logOn    bool
}

var s *state

var runCount int
var gcOff bool

// GCEvery: a collection is forced between executions every GCEvery runs (never inside one).
var GCEvery = 64

// Sites makes the happens-before monitor record source positions of accesses (slow: stack
// unwinding). Explorations run with Sites off; a racy execution is replayed with Sites on to
// obtain the message.
var Sites bool

// Active reports whether the caller runs inside a scheduled execution (and is not dead).
func Active() bool { return s != nil && s.cur != nil && !s.over }

// Cur returns the id of the running thread, or -1.
func Cur() int {
	if s == nil || s.cur == nil {
		return -1
	}
	return s.cur.id
}

// Proc returns the process group of the running thread (0 if none).
func Proc() int {
	if s == nil || s.cur == nil {
		return 0
	}
	return s.cur.proc
}

// SetProc assigns the running thread (and threads it spawns later) to a process group.
func SetProc(p int) {
	if s != nil && s.cur != nil {
		s.cur.proc = p
	}
}

// Dead reports whether the running thread has been killed / the execution aborted. Shims
// turn their operations into no-ops for dead threads (their deferred calls still run while
// the goroutine unwinds, but must not have visible effects: a dead process does nothing).
func Dead() bool {
	if s == nil || s.cur == nil {
		return false
	}
	return s.cur.dead || s.over
}

func Logf(format string, a ...any) {
	if s != nil && s.x != nil && len(s.x.Log) < 4000 {
		s.x.Log = append(s.x.Log, fmt.Sprintf(format, a...))
	}
}

// Fail records an oracle failure detected inside the execution and aborts it.
func Fail(kind, format string, a ...any) {
	if s == nil {
		panic(fmt.Sprintf(format, a...))
	}
	s.fail(kind, fmt.Sprintf(format, a...))
	if s.cur != nil {
		s.abortFromThread()
	}
}

func (st *state) fail(kind, msg string) {
	if st.x.Failure == nil {
		st.x.Failure = &Failure{Kind: kind, Msg: msg}
	}
}

// Run executes body once as thread 0 under the recorded choice prefix (default choice 0
// afterwards) and returns the trace. maxSteps bounds the number of scheduling steps.
func Run(prefix []int, maxSteps int, body func()) *Exec {
	if s != nil {
		panic("sched: nested Run")
	}
	// No garbage collection inside an execution: the happens-before monitor and the atomic
	// clocks are keyed by address, and a collected object's address may be handed out again.
	runCount++
	if runCount%GCEvery == 0 {
		runtime.GC()
	}
	if !gcOff {
		gcOff = true
		debug.SetGCPercent(-1)
	}
	st := &state{prefix: prefix, x: &Exec{}, maxSteps: maxSteps, finished: make(chan struct{}), shadow: map[uintptr]*shadowCell{}}
	s = st
	t := st.newThread("main", 0, nil)
	st.cur = t
	st.startThread(t, body)
	t.started = true
	t.wake <- struct{}{}
	<-st.finished
	// tear down threads that are still parked
	st.over = true
	for _, th := range st.threads {
		if !th.exited {
			th.dead = true
			select {
			case th.wake <- struct{}{}:
			default:
			}
		}
	}
	st.wg.Wait()
	st.x.Threads = len(st.threads)
	st.x.Choices = make([]int, len(st.x.Points))
	for i, p := range st.x.Points {
		st.x.Choices[i] = p.Chosen
	}
	s = nil
	return st.x
}

func (st *state) newThread(name string, proc int, parent *thread) *thread {
	t := &thread{id: len(st.threads), name: name, proc: proc, wake: make(chan struct{}, 1)}
	if parent != nil {
		t.vc = parent.vc.clone()
	}
	t.vc = t.vc.set(t.id, 1)
	st.threads = append(st.threads, t)
	return t
}

func (st *state) startThread(t *thread, body func()) {
	st.wg.Add(1)
	go func() {
		defer st.wg.Done()
		defer func() {
			// normal return, Goexit or panic all end here
			if e := recover(); e != nil {
				if !t.dead && !st.over {
					st.fail("panic", fmt.Sprintf("thread %d (%s) panicked: %v\n%s", t.id, t.name, e, stack()))
					t.exited = true
					st.finish()
					return
				}
			}
			t.exited = true
			if st.over || t.dead && st.cur != t {
				return
			}
			st.threadExit(t)
		}()
		<-t.wake
		if t.dead || st.over {
			return
		}
		body()
	}()
}

func stack() string {
	buf := make([]byte, 6000)
	n := runtime.Stack(buf, false)
	return string(buf[:n])
}

func (st *state) finish() {
	if !st.over {
		st.over = true
		close(st.finished)
	}
}

// threadExit is called on the exiting thread's goroutine while it is the current thread.
func (st *state) threadExit(t *thread) {
	t.done = true
	if st.cur != t {
		return
	}
	next, ok := st.pick()
	if !ok {
		return
	}
	if next == nil {
		for _, th := range st.threads {
			if !th.done && !th.dead {
				st.fail("deadlock", st.describeBlocked())
				break
			}
		}
		st.finish()
		return
	}
	st.cur = next
	next.wake <- struct{}{}
}

func (st *state) describeBlocked() string {
	var b strings.Builder
	b.WriteString("no enabled thread;")
	for _, th := range st.threads {
		if !th.done && !th.dead {
			fmt.Fprintf(&b, " thread %d (%s) blocked on %s;", th.id, th.name, th.what)
		}
	}
	return b.String()
}

// pick computes the enabled set in canonical order (running thread first if enabled, then
// ascending ids) and takes the next choice. ok=false means the execution was aborted.
func (st *state) pick() (next *thread, ok bool) {
	if st.over {
		return nil, false
	}
	st.x.Steps++
	if st.x.Steps > st.maxSteps {
		st.fail("horizon", fmt.Sprintf("step cap %d reached", st.maxSteps))
		st.finish()
		return nil, false
	}
	var list [16]*thread
	en := list[:0]
	cur := st.cur
	curEnabled := false
	if cur != nil && !cur.done && !cur.dead && (cur.enabled == nil || cur.enabled()) {
		en = append(en, cur)
		curEnabled = true
	}
	for _, th := range st.threads {
		if th == cur || th.done || th.dead {
			continue
		}
		if th.enabled == nil || th.enabled() {
			en = append(en, th)
		}
	}
	if len(en) == 0 {
		return nil, true
	}
	if len(en) == 1 {
		return en[0], true
	}
	what := ""
	tid := -1
	if cur != nil {
		what = cur.what
		tid = cur.id
	}
	c, ok := st.choice(Point{Kind: KThread, N: len(en), CurEnabled: curEnabled, What: what, Thread: tid})
	if !ok {
		return nil, false
	}
	return en[c], true
}

func (st *state) choice(p Point) (int, bool) {
	pos := len(st.x.Points)
	c := 0
	if pos < len(st.prefix) {
		c = st.prefix[pos]
		if c >= p.N || c < 0 {
			st.fail("nondeterminism", fmt.Sprintf("replayed choice %d at point %d but only %d alternatives (%s)", c, pos, p.N, p.What))
			st.finish()
			return 0, false
		}
	}
	p.Chosen = c
	st.x.Points = append(st.x.Points, p)
	return c, true
}

// abortFromThread ends the execution from inside the running thread.
func (st *state) abortFromThread() {
	t := st.cur
	st.finish()
	if t != nil {
		t.dead = true
		runtime.Goexit()
	}
}

// Yield is the scheduling point in front of a visible operation of the running thread.
// en (may be nil = always enabled) says whether the operation can proceed; it is re-evaluated
// whenever the scheduler looks for runnable threads. When Yield returns the caller is the
// running thread and en() holds: it performs the operation atomically (until its next Yield).
func Yield(en func() bool, what string) {
	st := s
	if st == nil || st.cur == nil {
		if en != nil && !en() {
			panic("sched: operation would block outside a scheduled execution: " + what)
		}
		return
	}
	t := st.cur
	if t.dead || st.over {
		return
	}
	t.enabled = en
	t.what = what
	next, ok := st.pick()
	if !ok {
		t.dead = true
		runtime.Goexit()
	}
	if next == nil {
		st.fail("deadlock", st.describeBlocked())
		st.abortFromThread()
	}
	if next != t {
		st.cur = next
		next.wake <- struct{}{}
		<-t.wake
		if t.dead || st.over {
			t.dead = true
			runtime.Goexit()
		}
	}
	t.enabled = nil
}

// Go spawns f as a new scheduled thread in the caller's process group. Outside a scheduled
// execution it is a plain go statement.
func Go(f func()) {
	GoNamed("", f)
}

func GoNamed(name string, f func()) {
	st := s
	if st == nil || st.cur == nil {
		go f()
		return
	}
	if st.cur.dead || st.over {
		return
	}
	parent := st.cur
	parent.vc = parent.vc.tick(parent.id)
	t := st.newThread(name, parent.proc, parent)
	t.started = true
	st.startThread(t, f)
	Yield(nil, "go")
}

// Choose is an environment choice with n alternatives; alternative 0 is the default answer,
// any other costs one deviation.
func Choose(n int, what string) int {
	st := s
	if st == nil || st.cur == nil || n <= 1 {
		return 0
	}
	if st.cur.dead || st.over {
		return 0
	}
	c, ok := st.choice(Point{Kind: KEnv, N: n, What: what, Thread: st.cur.id})
	if !ok {
		st.cur.dead = true
		runtime.Goexit()
	}
	return c
}

// KillProc kills every thread of process group p (process death): they never run again and
// their pending operations have no effect. If the caller belongs to p it does not return.
func KillProc(p int) {
	st := s
	if st == nil {
		return
	}
	self := false
	for _, th := range st.threads {
		if th.proc == p && !th.done {
			th.dead = true
			if th == st.cur {
				self = true
			}
		}
	}
	Logf("kill proc %d", p)
	if self {
		t := st.cur
		// hand over to another thread (free switch: the running thread is gone)
		next, ok := st.pick()
		if ok {
			if next == nil {
				alive := false
				for _, th := range st.threads {
					if !th.done && !th.dead {
						alive = true
					}
				}
				if alive {
					st.fail("deadlock", st.describeBlocked())
				}
				st.finish()
			} else {
				st.cur = next
				next.wake <- struct{}{}
			}
		}
		_ = t
		runtime.Goexit()
	}
}

// Local returns per-thread storage of the running thread (nil outside an execution).
func Local() map[any]any {
	if s == nil || s.cur == nil {
		return nil
	}
	if s.cur.local == nil {
		s.cur.local = map[any]any{}
	}
	return s.cur.local
}

// ---------------------------------------------------------------------------------------
// Vector clocks and the happens-before monitor

type VC []int32

func (v VC) clone() VC { return append(VC(nil), v...) }
func (v VC) get(i int) int32 {
	if i < len(v) {
		return v[i]
	}
	return 0
}
func (v VC) set(i int, x int32) VC {
	for len(v) <= i {
		v = append(v, 0)
	}
	v[i] = x
	return v
}
func (v VC) tick(i int) VC { return v.set(i, v.get(i)+1) }
func (v VC) join(o VC) VC {
	for i, x := range o {
		if x > v.get(i) {
			v = v.set(i, x)
		}
	}
	return v
}

// SyncAt returns the per-execution clock attached to an address (used by the atomic shim).
func SyncAt(addr uintptr) *Sync {
	if s == nil {
		return &Sync{}
	}
	if s.syncs == nil {
		s.syncs = map[uintptr]*Sync{}
	}
	c := s.syncs[addr]
	if c == nil {
		c = &Sync{}
		s.syncs[addr] = c
	}
	return c
}

// Sync is embedded in modelled synchronisation objects: a vector clock carrying
// release→acquire edges.
type Sync struct{ vc VC }

// Acquire: everything released on o happens before what the running thread does next.
func (o *Sync) Acquire() {
	if s == nil || s.cur == nil {
		return
	}
	s.cur.vc = s.cur.vc.join(o.vc)
}

// Release: what the running thread did so far happens before later acquires of o.
func (o *Sync) Release() {
	if s == nil || s.cur == nil {
		return
	}
	o.vc = o.vc.join(s.cur.vc)
	s.cur.vc = s.cur.vc.tick(s.cur.id)
}

type access struct {
	tid   int
	clock int32
	site  string
}

type shadowCell struct {
	w     access
	hasW  bool
	reads []access
}

func site(skip int) string {
	if !Sites {
		return "(replay with sites)"
	}
	_, file, line, ok := runtime.Caller(skip)
	if !ok {
		return "?"
	}
	if i := strings.LastIndex(file, "/"); i >= 0 {
		file = file[i+1:]
	}
	return fmt.Sprintf("%s:%d", file, line)
}

func (st *state) race(kind string, prev access, now access, addr uintptr) {
	msg := fmt.Sprintf("%s: thread %d at %s vs thread %d at %s (location %#x)", kind, prev.tid, prev.site, now.tid, now.site, addr)
	if len(st.x.Races) < 20 {
		st.x.Races = append(st.x.Races, msg)
	}
}

// ReadAt / WriteAt record an instrumented data access for the happens-before monitor.
// They are not scheduling points.
func ReadAt(addr uintptr, skip int) {
	st := s
	if st == nil || st.cur == nil || st.cur.dead {
		return
	}
	t := st.cur
	c := st.shadow[addr]
	if c == nil {
		c = &shadowCell{}
		st.shadow[addr] = c
	}
	now := access{t.id, t.vc.get(t.id), ""}
	if c.hasW && c.w.tid != t.id && c.w.clock > t.vc.get(c.w.tid) {
		now.site = site(skip + 1)
		st.race("write/read race", c.w, now, addr)
	}
	for i := range c.reads {
		if c.reads[i].tid == t.id {
			c.reads[i].clock = now.clock
			c.reads[i].site = ""
			return
		}
	}
	now.site = site(skip + 1)
	c.reads = append(c.reads, now)
}

func WriteAt(addr uintptr, skip int) {
	st := s
	if st == nil || st.cur == nil || st.cur.dead {
		return
	}
	t := st.cur
	c := st.shadow[addr]
	if c == nil {
		c = &shadowCell{}
		st.shadow[addr] = c
	}
	now := access{t.id, t.vc.get(t.id), site(skip + 1)}
	if c.hasW && c.w.tid != t.id && c.w.clock > t.vc.get(c.w.tid) {
		st.race("write/write race", c.w, now, addr)
	}
	for _, r := range c.reads {
		if r.tid != t.id && r.clock > t.vc.get(r.tid) {
			if r.site == "" {
				r.site = "(earlier read)"
			}
			st.race("read/write race", r, now, addr)
		}
	}
	c.reads = c.reads[:0]
	c.w = now
	c.hasW = true
}
