//go:build verif

package sched

import (
	"fmt"
	"time"
)

// Config bounds one exploration.
type Config struct {
	MaxPreempt int           // preemption bound (switching away from a thread that could continue)
	DelayBound bool          // delay bounding: EVERY non-default thread choice costs one (also when the running thread is blocked)
	MaxDev     int           // deviation bound for environment choices
	MaxSteps   int           // horizon per execution
	Deadline   time.Time     // zero: none. When passed the exploration stops with Complete=false
	MaxExecs   int64         // 0: none
	Shard      int           // explore only first-level subtrees with index%NShards==Shard
	NShards    int           // 0/1: everything
	StopOnFail bool          // stop at the first failing execution
	OnExec     func(x *Exec) // called after every execution (oracle); may set x.Failure
}

type Stats struct {
	Execs       int64
	Points      int64 // choice points seen (transitions)
	Steps       int64
	Failures    []*Exec
	Complete    bool
	MaxDepth    int
	PreemptUsed int
	DevUsed     int
}

// Explore runs body under every schedule / environment answer whose cost stays within the
// bounds: depth-first over choice prefixes, default choice 0 beyond the prefix
// (iterative-context-bounding search, Musuvathi & Qadeer 2007).
func Explore(cfg Config, body func()) *Stats {
	st := &Stats{Complete: true}
	if cfg.MaxSteps == 0 {
		cfg.MaxSteps = 100000
	}
	e := &explorer{cfg: cfg, st: st, body: body}
	e.explore(nil, 0, 0, true)
	return st
}

type explorer struct {
	cfg  Config
	st   *Stats
	body func()
	stop bool
	branchNo int
}

func (e *explorer) explore(prefix []int, preBefore, devBefore int, top bool) {
	if e.stop {
		return
	}
	if !e.cfg.Deadline.IsZero() && time.Now().After(e.cfg.Deadline) || e.cfg.MaxExecs > 0 && e.st.Execs >= e.cfg.MaxExecs {
		e.st.Complete = false
		e.stop = true
		return
	}
	x := Run(prefix, e.cfg.MaxSteps, e.body)
	e.st.Execs++
	e.st.Points += int64(len(x.Points))
	e.st.Steps += int64(x.Steps)
	if len(x.Points) > e.st.MaxDepth {
		e.st.MaxDepth = len(x.Points)
	}
	if x.Failure != nil && x.Failure.Kind == "nondeterminism" {
		// a harness defect, never a property violation
		panic("sched: nondeterministic replay: " + x.Failure.Msg)
	}
	if x.Failure == nil && len(x.Races) > 0 {
		x.Failure = &Failure{Kind: "race", Msg: x.Races[0]}
	}
	if e.cfg.OnExec != nil {
		e.cfg.OnExec(x)
	}
	if x.Failure != nil {
		if len(e.st.Failures) < 50 {
			e.st.Failures = append(e.st.Failures, x)
		}
		if e.cfg.StopOnFail {
			e.stop = true
			return
		}
	}
	pre, dev := preBefore, devBefore
	for i := len(prefix); i < len(x.Points); i++ {
		p := x.Points[i]
		for alt := 1; alt < p.N; alt++ {
			np, nd := pre, dev
			if p.Kind == KThread {
				if p.CurEnabled || e.cfg.DelayBound {
					np++
				}
			} else {
				nd++
			}
			if np > e.cfg.MaxPreempt || nd > e.cfg.MaxDev {
				continue
			}
			if np > e.st.PreemptUsed {
				e.st.PreemptUsed = np
			}
			if nd > e.st.DevUsed {
				e.st.DevUsed = nd
			}
			if top && e.cfg.NShards > 1 {
				// shard on the index of the branch among all first-level branches
				if e.branchNo%e.cfg.NShards != e.cfg.Shard {
					e.branchNo++
					continue
				}
				e.branchNo++
			}
			np2 := append(append(make([]int, 0, i+1), x.Choices[:i]...), alt)
			e.explore(np2, np, nd, false)
			if e.stop {
				return
			}
		}
	}
}

func (x *Exec) String() string {
	s := fmt.Sprintf("choices=%v steps=%d", x.Choices, x.Steps)
	if x.Failure != nil {
		s += " failure=" + x.Failure.String()
	}
	return s
}
