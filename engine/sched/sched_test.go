//go:build verif

package sched_test

import (
	"fmt"
	"testing"
	"unsafe"

	"honnef.co/go/tools/internal/verifx/sched"
	"honnef.co/go/tools/internal/verifx/vatomic"
	"honnef.co/go/tools/internal/verifx/vsync"
)

func TestLostUpdate(t *testing.T) {
	outcomes := map[int32]int{}
	body := func() {
		var x int32
		var wg vsync.WaitGroup
		wg.Add(2)
		for i := 0; i < 2; i++ {
			sched.Go(func() {
				v := vatomic.LoadInt32(&x)
				vatomic.StoreInt32(&x, v+1)
				wg.Done()
			})
		}
		wg.Wait()
		outcomes[x]++
	}
	st := sched.Explore(sched.Config{MaxPreempt: 0}, body)
	if len(outcomes) != 1 || outcomes[2] == 0 {
		t.Fatalf("bound 0: outcomes %v", outcomes)
	}
	e0 := st.Execs
	st = sched.Explore(sched.Config{MaxPreempt: 1}, body)
	if outcomes[1] == 0 {
		t.Fatalf("bound 1 did not find the lost update: %v (execs %d)", outcomes, st.Execs)
	}
	t.Logf("execs bound0=%d bound1=%d outcomes=%v", e0, st.Execs, outcomes)
}

func TestDeadlock(t *testing.T) {
	body := func() {
		var a, b vsync.Mutex
		var wg vsync.WaitGroup
		wg.Add(2)
		sched.Go(func() { a.Lock(); b.Lock(); b.Unlock(); a.Unlock(); wg.Done() })
		sched.Go(func() { b.Lock(); a.Lock(); a.Unlock(); b.Unlock(); wg.Done() })
		wg.Wait()
	}
	st := sched.Explore(sched.Config{MaxPreempt: 0}, body)
	if len(st.Failures) != 0 {
		t.Fatalf("bound 0 failures: %v", st.Failures[0])
	}
	st = sched.Explore(sched.Config{MaxPreempt: 1}, body)
	found := false
	for _, f := range st.Failures {
		if f.Failure.Kind == "deadlock" {
			found = true
			// replay twice
			for i := 0; i < 2; i++ {
				x := sched.Run(f.Choices, 10000, body)
				if x.Failure == nil || x.Failure.Kind != "deadlock" {
					t.Fatalf("replay %d diverged: %v", i, x)
				}
			}
		}
	}
	if !found {
		t.Fatalf("deadlock not found; execs=%d", st.Execs)
	}
}

func TestChannels(t *testing.T) {
	sums := map[string]int{}
	body := func() {
		c := sched.MakeChan[int](0)
		d := sched.MakeChan[int](1)
		done := sched.MakeChan[struct{}](0)
		sched.Go(func() {
			for i := 1; i <= 2; i++ {
				c.Send(i)
			}
			c.Close()
		})
		sched.Go(func() {
			d.Send(10)
			d.Close()
		})
		sched.Go(func() {
			order := ""
			cc, dd := c, d
			for cc != nil || dd != nil {
				sel := sched.Select(false, sched.RecvCase(cc), sched.RecvCase(dd))
				switch sel.Index {
				case 0:
					v, ok := sched.GotOK[int](sel)
					if !ok {
						cc = nil
					} else {
						order += fmt.Sprint("c", v)
					}
				case 1:
					v, ok := sched.GotOK[int](sel)
					if !ok {
						dd = nil
					} else {
						order += fmt.Sprint("d", v)
					}
				}
			}
			sums[order]++
			done.Close()
		})
		done.Recv()
	}
	st := sched.Explore(sched.Config{MaxPreempt: 2, MaxDev: 2}, body)
	if len(st.Failures) > 0 {
		t.Fatalf("failure: %v", st.Failures[0])
	}
	if len(sums) != 3 {
		t.Fatalf("expected 3 distinct orders (c1c2d10,c1d10c2,d10c1c2), got %v", sums)
	}
	t.Logf("execs=%d orders=%v", st.Execs, sums)
}

func TestRace(t *testing.T) {
	body := func() {
		var x int
		var mu vsync.Mutex
		var wg vsync.WaitGroup
		wg.Add(2)
		sched.Go(func() {
			mu.Lock()
			sched.WriteAt(uintptr(unsafe.Pointer(&x)), 0)
			x = 1
			mu.Unlock()
			wg.Done()
		})
		sched.Go(func() {
			sched.ReadAt(uintptr(unsafe.Pointer(&x)), 0) // unprotected read
			_ = x
			wg.Done()
		})
		wg.Wait()
	}
	st := sched.Explore(sched.Config{MaxPreempt: 0}, body)
	if len(st.Failures) == 0 || st.Failures[0].Failure.Kind != "race" {
		t.Fatalf("race not reported at bound 0")
	}
	ok := func() {
		var x int
		var mu vsync.Mutex
		var wg vsync.WaitGroup
		wg.Add(2)
		for i := 0; i < 2; i++ {
			sched.Go(func() {
				mu.Lock()
				sched.WriteAt(uintptr(unsafe.Pointer(&x)), 0)
				x++
				mu.Unlock()
				wg.Done()
			})
		}
		wg.Wait()
		sched.ReadAt(uintptr(unsafe.Pointer(&x)), 0)
	}
	st = sched.Explore(sched.Config{MaxPreempt: 2}, ok)
	if len(st.Failures) != 0 {
		t.Fatalf("false race: %v", st.Failures[0])
	}
	t.Logf("execs=%d", st.Execs)
}

func TestSendOnClosedAndKill(t *testing.T) {
	body := func() {
		c := sched.MakeChan[int](1)
		sched.Go(func() { c.Close() })
		c.Send(1)
	}
	st := sched.Explore(sched.Config{MaxPreempt: 1}, body)
	found := false
	for _, f := range st.Failures {
		if f.Failure.Kind == "panic" {
			found = true
		}
	}
	if !found {
		t.Fatalf("send on closed channel not found (execs %d)", st.Execs)
	}
	// kill as an environment choice
	survived := 0
	killed := 0
	body2 := func() {
		steps := 0
		sched.Go(func() {
			sched.SetProc(1)
			for i := 0; i < 3; i++ {
				if sched.Choose(2, "kill?") == 1 {
					sched.KillProc(1)
				}
				steps++
			}
		})
		sched.Yield(nil, "x")
		_ = steps
	}
	st = sched.Explore(sched.Config{MaxPreempt: 0, MaxDev: 1, OnExec: func(x *sched.Exec) {
		k := false
		for _, l := range x.Log {
			if l == "kill proc 1" {
				k = true
			}
		}
		if k {
			killed++
		} else {
			survived++
		}
	}}, body2)
	if killed != 3 || survived != 1 || len(st.Failures) != 0 {
		t.Fatalf("kill exploration: killed=%d survived=%d failures=%d", killed, survived, len(st.Failures))
	}
}
