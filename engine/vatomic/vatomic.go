//go:build verif

// Package vatomic mirrors sync/atomic: every operation is a scheduling point and a
// release/acquire edge on its address (Go's atomics are sequentially consistent).
package vatomic

import (
	"unsafe"

	"honnef.co/go/tools/internal/verifx/sched"
)

func hb(p unsafe.Pointer) *sched.Sync { return sched.SyncAt(uintptr(p)) }

func point(p unsafe.Pointer, what string, write bool) {
	if sched.Dead() {
		return
	}
	sched.Yield(nil, what)
	if !sched.Active() {
		return
	}
	c := hb(p)
	c.Acquire()
	if write {
		c.Release()
	}
}

func AddInt32(addr *int32, delta int32) int32 {
	point(unsafe.Pointer(addr), "atomic.AddInt32", true)
	*addr += delta
	return *addr
}
func AddInt64(addr *int64, delta int64) int64 {
	point(unsafe.Pointer(addr), "atomic.AddInt64", true)
	*addr += delta
	return *addr
}
func AddUint32(addr *uint32, delta uint32) uint32 {
	point(unsafe.Pointer(addr), "atomic.AddUint32", true)
	*addr += delta
	return *addr
}
func AddUint64(addr *uint64, delta uint64) uint64 {
	point(unsafe.Pointer(addr), "atomic.AddUint64", true)
	*addr += delta
	return *addr
}
func LoadInt32(addr *int32) int32 {
	point(unsafe.Pointer(addr), "atomic.LoadInt32", false)
	return *addr
}
func LoadInt64(addr *int64) int64 {
	point(unsafe.Pointer(addr), "atomic.LoadInt64", false)
	return *addr
}
func LoadUint32(addr *uint32) uint32 {
	point(unsafe.Pointer(addr), "atomic.LoadUint32", false)
	return *addr
}
func LoadUint64(addr *uint64) uint64 {
	point(unsafe.Pointer(addr), "atomic.LoadUint64", false)
	return *addr
}
func StoreInt32(addr *int32, v int32) {
	point(unsafe.Pointer(addr), "atomic.StoreInt32", true)
	*addr = v
}
func StoreInt64(addr *int64, v int64) {
	point(unsafe.Pointer(addr), "atomic.StoreInt64", true)
	*addr = v
}
func StoreUint32(addr *uint32, v uint32) {
	point(unsafe.Pointer(addr), "atomic.StoreUint32", true)
	*addr = v
}
func StoreUint64(addr *uint64, v uint64) {
	point(unsafe.Pointer(addr), "atomic.StoreUint64", true)
	*addr = v
}
func CompareAndSwapInt32(addr *int32, old, new int32) bool {
	point(unsafe.Pointer(addr), "atomic.CompareAndSwapInt32", true)
	if *addr == old {
		*addr = new
		return true
	}
	return false
}
func CompareAndSwapInt64(addr *int64, old, new int64) bool {
	point(unsafe.Pointer(addr), "atomic.CompareAndSwapInt64", true)
	if *addr == old {
		*addr = new
		return true
	}
	return false
}
func CompareAndSwapUint32(addr *uint32, old, new uint32) bool {
	point(unsafe.Pointer(addr), "atomic.CompareAndSwapUint32", true)
	if *addr == old {
		*addr = new
		return true
	}
	return false
}
func SwapInt32(addr *int32, new int32) int32 {
	point(unsafe.Pointer(addr), "atomic.SwapInt32", true)
	o := *addr
	*addr = new
	return o
}

type Bool struct{ v bool }

func (b *Bool) Load() bool { point(unsafe.Pointer(b), "atomic.Bool.Load", false); return b.v }
func (b *Bool) Store(v bool) {
	point(unsafe.Pointer(b), "atomic.Bool.Store", true)
	b.v = v
}
func (b *Bool) Swap(v bool) bool {
	point(unsafe.Pointer(b), "atomic.Bool.Swap", true)
	o := b.v
	b.v = v
	return o
}
func (b *Bool) CompareAndSwap(old, new bool) bool {
	point(unsafe.Pointer(b), "atomic.Bool.CompareAndSwap", true)
	if b.v == old {
		b.v = new
		return true
	}
	return false
}

type Int32 struct{ v int32 }

func (x *Int32) Load() int32   { point(unsafe.Pointer(x), "atomic.Int32.Load", false); return x.v }
func (x *Int32) Store(v int32) { point(unsafe.Pointer(x), "atomic.Int32.Store", true); x.v = v }
func (x *Int32) Add(d int32) int32 {
	point(unsafe.Pointer(x), "atomic.Int32.Add", true)
	x.v += d
	return x.v
}
func (x *Int32) CompareAndSwap(old, new int32) bool {
	point(unsafe.Pointer(x), "atomic.Int32.CompareAndSwap", true)
	if x.v == old {
		x.v = new
		return true
	}
	return false
}

type Int64 struct{ v int64 }

func (x *Int64) Load() int64   { point(unsafe.Pointer(x), "atomic.Int64.Load", false); return x.v }
func (x *Int64) Store(v int64) { point(unsafe.Pointer(x), "atomic.Int64.Store", true); x.v = v }
func (x *Int64) Add(d int64) int64 {
	point(unsafe.Pointer(x), "atomic.Int64.Add", true)
	x.v += d
	return x.v
}
func (x *Int64) CompareAndSwap(old, new int64) bool {
	point(unsafe.Pointer(x), "atomic.Int64.CompareAndSwap", true)
	if x.v == old {
		x.v = new
		return true
	}
	return false
}

type Uint32 struct{ v uint32 }

func (x *Uint32) Load() uint32   { point(unsafe.Pointer(x), "atomic.Uint32.Load", false); return x.v }
func (x *Uint32) Store(v uint32) { point(unsafe.Pointer(x), "atomic.Uint32.Store", true); x.v = v }
func (x *Uint32) Add(d uint32) uint32 {
	point(unsafe.Pointer(x), "atomic.Uint32.Add", true)
	x.v += d
	return x.v
}

type Uint64 struct{ v uint64 }

func (x *Uint64) Load() uint64   { point(unsafe.Pointer(x), "atomic.Uint64.Load", false); return x.v }
func (x *Uint64) Store(v uint64) { point(unsafe.Pointer(x), "atomic.Uint64.Store", true); x.v = v }
func (x *Uint64) Add(d uint64) uint64 {
	point(unsafe.Pointer(x), "atomic.Uint64.Add", true)
	x.v += d
	return x.v
}

type Pointer[T any] struct{ p *T }

func (x *Pointer[T]) Load() *T   { point(unsafe.Pointer(x), "atomic.Pointer.Load", false); return x.p }
func (x *Pointer[T]) Store(v *T) { point(unsafe.Pointer(x), "atomic.Pointer.Store", true); x.p = v }
func (x *Pointer[T]) CompareAndSwap(old, new *T) bool {
	point(unsafe.Pointer(x), "atomic.Pointer.CompareAndSwap", true)
	if x.p == old {
		x.p = new
		return true
	}
	return false
}

type Value struct{ v any }

func (x *Value) Load() any   { point(unsafe.Pointer(x), "atomic.Value.Load", false); return x.v }
func (x *Value) Store(v any) { point(unsafe.Pointer(x), "atomic.Value.Store", true); x.v = v }
