//go:build verif

// Package vsync mirrors the part of package sync used by the code under test, with every
// operation a visible scheduling point of engine E1 and a happens-before edge.
package vsync

import (
	"sync"

	"honnef.co/go/tools/internal/verifx/sched"
)

type Locker = sync.Locker
type Pool = sync.Pool
type Map = sync.Map

type Mutex struct {
	locked bool
	hb     sched.Sync
}

func (m *Mutex) Lock() {
	if sched.Dead() {
		return
	}
	sched.Yield(func() bool { return !m.locked }, "Mutex.Lock")
	if sched.Dead() {
		return
	}
	m.locked = true
	m.hb.Acquire()
}

func (m *Mutex) TryLock() bool {
	if sched.Dead() {
		return false
	}
	sched.Yield(nil, "Mutex.TryLock")
	if m.locked {
		return false
	}
	m.locked = true
	m.hb.Acquire()
	return true
}

func (m *Mutex) Unlock() {
	if sched.Dead() {
		return
	}
	if !m.locked {
		sched.Fail("crash", "sync: unlock of unlocked mutex")
		return
	}
	sched.Yield(nil, "Mutex.Unlock")
	if sched.Dead() {
		return
	}
	m.hb.Release()
	m.locked = false
}

type RWMutex struct {
	writer  bool
	readers int
	hb      sched.Sync // released by writers (and readers), acquired by all
	rhb     sched.Sync
}

func (m *RWMutex) Lock() {
	if sched.Dead() {
		return
	}
	sched.Yield(func() bool { return !m.writer && m.readers == 0 }, "RWMutex.Lock")
	if sched.Dead() {
		return
	}
	m.writer = true
	m.hb.Acquire()
	m.rhb.Acquire()
}

func (m *RWMutex) Unlock() {
	if sched.Dead() {
		return
	}
	if !m.writer {
		sched.Fail("crash", "sync: Unlock of unlocked RWMutex")
		return
	}
	sched.Yield(nil, "RWMutex.Unlock")
	if sched.Dead() {
		return
	}
	m.hb.Release()
	m.writer = false
}

func (m *RWMutex) RLock() {
	if sched.Dead() {
		return
	}
	sched.Yield(func() bool { return !m.writer }, "RWMutex.RLock")
	if sched.Dead() {
		return
	}
	m.readers++
	m.hb.Acquire()
}

func (m *RWMutex) RUnlock() {
	if sched.Dead() {
		return
	}
	if m.readers <= 0 {
		sched.Fail("crash", "sync: RUnlock of unlocked RWMutex")
		return
	}
	sched.Yield(nil, "RWMutex.RUnlock")
	if sched.Dead() {
		return
	}
	m.rhb.Release()
	m.readers--
}

func (m *RWMutex) RLocker() Locker { return (*rlocker)(m) }

type rlocker RWMutex

func (r *rlocker) Lock()   { (*RWMutex)(r).RLock() }
func (r *rlocker) Unlock() { (*RWMutex)(r).RUnlock() }

type Once struct {
	done    bool
	running bool
	hb      sched.Sync
}

func (o *Once) Do(f func()) {
	if sched.Dead() {
		return
	}
	// a second caller blocks until the first call of f has returned
	sched.Yield(func() bool { return !o.running }, "Once.Do")
	if sched.Dead() {
		return
	}
	if o.done {
		o.hb.Acquire()
		return
	}
	o.running = true
	defer func() {
		o.done = true
		o.running = false
		o.hb.Release()
	}()
	f()
}

type WaitGroup struct {
	n  int
	hb sched.Sync
}

func (w *WaitGroup) Add(d int) {
	if sched.Dead() {
		return
	}
	sched.Yield(nil, "WaitGroup.Add")
	if sched.Dead() {
		return
	}
	w.n += d
	if d < 0 {
		w.hb.Release()
	}
	if w.n < 0 {
		sched.Fail("crash", "sync: negative WaitGroup counter")
	}
}

func (w *WaitGroup) Done() { w.Add(-1) }

func (w *WaitGroup) Wait() {
	if sched.Dead() {
		return
	}
	sched.Yield(func() bool { return w.n == 0 }, "WaitGroup.Wait")
	if sched.Dead() {
		return
	}
	w.hb.Acquire()
}

func (w *WaitGroup) Go(f func()) {
	w.Add(1)
	sched.Go(func() {
		defer w.Done()
		f()
	})
}

// OnceFunc etc. are thin re-implementations on top of Once.
func OnceFunc(f func()) func() {
	var o Once
	return func() { o.Do(f) }
}

func OnceValue[T any](f func() T) func() T {
	var o Once
	var v T
	return func() T {
		o.Do(func() { v = f() })
		return v
	}
}

func OnceValues[T1, T2 any](f func() (T1, T2)) func() (T1, T2) {
	var o Once
	var v1 T1
	var v2 T2
	return func() (T1, T2) {
		o.Do(func() { v1, v2 = f() })
		return v1, v2
	}
}
