#!/bin/bash
# Offline setup: warm the Go build cache for the repository, its commands and every harness
# test binary, so that the first quick check does not pay the cold-compile cost.
cd /verif || exit 1
export GOPROXY=off GOTOOLCHAIN=auto CGO_ENABLED=0
unset GOFLAGS GOSUMDB
(cd /repo && go build ./... ) || echo "setup: go build ./... failed (checks will report it)"
(cd /repo && go vet -vettool=/bin/true ./... >/dev/null 2>&1; true)
python3 tools/prewarm.py || true
exit 0
