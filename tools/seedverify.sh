#!/bin/bash
# seedverify.sh <Cxx> <demo file> <dest dir in worktree> <go test args...>
# Confirms an independently seeded change: patch applies to HEAD, demonstration passes without
# and fails with the change (in the seed's scratch worktree), then runs our check against it.
seed=$1; id=${seed:0:3}; demo=$2; dest=$3; shift 3
wt=${SEED_WT:-/var/tmp/seed-$seed}; out=${SEED_OUT:-/var/tmp/seed-out-$seed}
cd $wt || exit 2
git checkout -q -- . ; git checkout -q --detach $(git -C /repo rev-parse HEAD) 2>/dev/null
[ -n "$(git status --porcelain)" ] && { echo "worktree dirty"; git status --short | head; }
git apply --check $out/patch.diff && echo "APPLIES to $(git rev-parse --short HEAD)" || { echo "PATCH DOES NOT APPLY"; exit 1; }
cp $out/demo/$demo $dest/
echo "--- demo without change:"; go test -count=1 "$@" 2>&1 | tail -2 | cut -c1-200
git apply $out/patch.diff
echo "--- demo with change:"; go test -count=1 "$@" 2>&1 | tail -3 | cut -c1-200
git checkout -q -- .; rm -f $dest/$demo
echo "--- check:"
cd /verif && VERIF_REPO=$wt tools/mutcheck $id $out/patch.diff 2>&1 | tail -3 | cut -c1-300
