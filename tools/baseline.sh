#!/bin/bash
# Runs the repository's pinned baseline (guard off: nothing of ours is in the tree) and
# compares the set of passing tests with BASELINE.json's stable_pass list.
out=${1:-/var/tmp/baseline.json}
cd /repo || exit 2
go build ./... || exit 2
go test -mod=mod -json -vet=off -count=1 -timeout ${BASELINE_TIMEOUT:-25m} ./... > "$out" 2>/var/tmp/baseline.err
python3 - "$out" <<'PY'
import json,sys
passed=set(); failed=set()
for line in open(sys.argv[1]):
    try: e=json.loads(line)
    except Exception: continue
    if e.get('Test') and e.get('Action') in ('pass','fail'):
        k=e['Package']+'::'+e['Test']
        (passed if e['Action']=='pass' else failed).add(k)
base=set(json.load(open('/root/.vp/BASELINE.json'))['stable_pass'])
missing=sorted(base-passed)
print("baseline tests:",len(base),"passed now:",len(base&passed),"missing/failed:",len(missing))
for m in missing[:40]: print("  ",m, "(FAILED)" if m in failed else "(not run)")
sys.exit(0 if not missing else 1)
PY
