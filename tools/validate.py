#!/opt/veriftools/pyvenv/bin/python
import json, jsonschema, glob, sys
ok = True
try:
    jsonschema.validate(json.load(open('/verif/MANIFEST.json')), json.load(open('/root/.vp/MANIFEST.schema.json')))
except Exception as e:
    ok = False; print("MANIFEST:", e)
es = json.load(open('/root/.vp/EVIDENCE.schema.json'))
for f in sorted(glob.glob('/verif/evidence/*.json')):
    try:
        jsonschema.validate(json.load(open(f)), es)
    except Exception as e:
        ok = False; print(f, str(e)[:400])
print("valid" if ok else "INVALID")
sys.exit(0 if ok else 1)
