#!/bin/bash
# Engine self-tests (scheduler, explorer, channel/sync/atomic models, vfs).
cd /verif && python3 - <<'PY'
import json,os,subprocess,sys,tempfile,shutil
sys.path.insert(0,'/verif')
import importlib.machinery, importlib.util
l=importlib.machinery.SourceFileLoader("vcheck","/verif/vcheck"); sp=importlib.util.spec_from_loader("vcheck",l); vc=importlib.util.module_from_spec(sp); l.exec_module(vc)
d=tempfile.mkdtemp(dir="/var/tmp")
ov=vc.engine_overlay()
for root,_,files in os.walk("/verif/engine"):
    for f in files:
        if f.endswith("_test.go"):
            rel=os.path.relpath(os.path.join(root,f),"/verif/engine"); ov[os.path.join(vc.REPO,"internal/verifx",rel)]=os.path.join(root,f)
json.dump({"Replace":ov},open(d+"/ov.json","w"))
rc=0
pkgs=sorted({os.path.dirname(os.path.relpath(k,vc.REPO)) for k in ov if k.endswith("_test.go")})
for pkg in pkgs:
    b=d+"/t.test"
    r=subprocess.run(["go","test","-c","-vet=off","-tags","verif","-overlay",d+"/ov.json","-o",b,"./"+pkg],cwd=vc.REPO,env=vc.goenv())
    if r.returncode!=0: rc=1; continue
    r=subprocess.run([b,"-test.v"]+sys.argv[1:],cwd=d,env=vc.goenv())
    rc=rc or r.returncode
shutil.rmtree(d)
sys.exit(rc)
PY
