#!/bin/bash
# Runs every registered check's quick (or given) tier sequentially and validates the evidence.
tier=${1:-quick}
cd /verif || exit 2
rc=0
for id in $(python3 -c "import json;print(' '.join(c['property_id'] for c in json.load(open('MANIFEST.json'))['checks']))"); do
  s=$(date +%s)
  out=$(./vcheck $id --tier $tier 2>&1); r=$?
  echo "$out" | grep -E "^(VIOLATION|ERROR|$id tier)" | cut -c1-220
  echo "   -> $id exit=$r $(( $(date +%s) - s ))s"
  [ $r -ne 0 ] && rc=1
done
tools/validate.py || rc=1
exit $rc
