#!/bin/bash
# profile.sh <Cxx> <shard i/n> <budget seconds> -- build the harness and CPU-profile one shard
prop=$1; shard=${2:-0/1}; budget=${3:-30}
cd /verif
(./vcheck $prop --tier quick --no-evidence --keep >/var/tmp/prof-$prop.log 2>&1 &)
for i in $(seq 1 120); do d=$(ls -d /var/tmp/vcheck-$prop-* 2>/dev/null | head -1); [ -n "$d" ] && [ -x "$d/harness.test" ] && break; sleep 1; done
sleep 2; cp $d/harness.test /var/tmp/prof-$prop.test; cp $d/overlay.json /var/tmp/prof-$prop.overlay.json 2>/dev/null
pkill -f "vcheck $prop"; pkill -f "$d/harness.test"; sleep 1
pkg=$(python3 -c "import json;print(json.load(open('/verif/checks/$prop/check.json'))['pkg'])")
mkdir -p /var/tmp/prof-w
(cd /repo/$pkg && VERIF_BUDGET=$budget VERIF_TIER=quick VERIF_SHARD=$shard VERIF_OUT=/var/tmp/prof-o.json VERIF_SCRATCH_DIR=/var/tmp/prof-w GOMAXPROCS=1 /var/tmp/prof-$prop.test -test.run "$(python3 -c "import json;print(json.load(open('/verif/checks/$prop/check.json'))['run'])")" -test.cpuprofile /var/tmp/prof-$prop.prof >/dev/null 2>&1)
(cd /repo && go tool pprof -top -cum -nodecount=70 /var/tmp/prof-$prop.test /var/tmp/prof-$prop.prof 2>/dev/null | head -85)
rm -rf /var/tmp/vcheck-$prop-* /var/tmp/prof-w
