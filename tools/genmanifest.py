#!/usr/bin/env python3
"""Regenerates /verif/MANIFEST.json from checks/*/check.json (single source of truth)."""
import json, os, glob
V = os.path.dirname(os.path.dirname(os.path.abspath(__file__)))
props = [json.loads(l) for l in open(os.path.join(V, "properties.jsonl"))]
pending = json.load(open(os.path.join(V, "tools", "pending.json"))) if os.path.exists(os.path.join(V, "tools", "pending.json")) else {}
checks, na = [], []
for p in props:
    pid = p["id"]
    cj = os.path.join(V, "checks", pid, "check.json")
    if os.path.exists(cj) and json.load(open(cj)).get("ready") and not json.load(open(cj)).get("disabled"):
        c = json.load(open(cj))
        checks.append({
            "property_id": pid,
            "quick_cmd": "./vcheck %s --tier quick" % pid,
            "thorough_cmd": "./vcheck %s --tier thorough" % pid,
            "evidence_file": "/verif/evidence/%s.json" % pid,
            "replay_cmd_template": "./vcheck %s --replay {path}" % pid,
            "engine": c.get("engine", "vcheck"),
            "level_claimed": {"category": c["level"], "text": c.get("level_text", ""), "design_ref": c.get("design_ref", "DESIGN.md §4 " + pid)},
            "level_note": c.get("level_note", "; ".join(c.get("assumptions", []))),
            "technique": c.get("technique", "bounded exhaustive enumeration against a reference model"),
        })
    else:
        na.append({"property_id": pid, "reason": pending.get(pid, "check not built yet in this round; planned in DESIGN.md §4 " + pid)})
m = {
    "version": 1,
    "setup_cmd": "./setup.sh",
    "hooks": {
        "guard": "verif",
        "enable": "no source hooks in /repo: harness files and engine packages are injected with `go test -overlay` and carry `//go:build verif`; checks build with -tags verif",
        "baseline_off_cmd": "for m in . ./website; do (cd /repo/$m && go test -mod=mod -json -vet=off -count=1 -timeout 25m ./...); done",
        "source_commits": [],
        "add_only": True,
    },
    "engines": [
        {"name": "vcheck", "path": "/verif/vcheck", "serves_properties": [c["property_id"] for c in checks],
         "kind_free_text": "driver: overlay assembly, build from /repo working tree, sharded runs, known-findings classification, evidence"},
        {"name": "vx", "path": "/verif/engine/vx", "serves_properties": [c["property_id"] for c in checks], "kind_free_text": "harness runtime (counters, samples, violations, replay)"},
    ],
    "checks": checks,
    "not_applicable": na,
    "notes": "All checks are exhaustive enumerations of a stated bounded space executed on the real code of /repo (see DESIGN.md). known-findings.txt lists genuine defects recorded or fixed.",
}
extra = os.path.join(V, "tools", "engines.json")
if os.path.exists(extra):
    m["engines"].extend(json.load(open(extra)))
json.dump(m, open(os.path.join(V, "MANIFEST.json"), "w"), indent=1)
print("checks:", [c["property_id"] for c in checks], "n/a:", [n["property_id"] for n in na])
