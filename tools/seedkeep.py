#!/usr/bin/env python3
"""seedkeep.py <seed id, e.g. C12-4> <out dir> <verdict text> -- store a confirmed seeded change under
/verif/seeded/<id>/ (patch.diff, demo/, notes.md, meta.json). Summary/needs are taken from notes.md."""
import sys, os, json, shutil
seed, out, verdict = sys.argv[1], sys.argv[2], sys.argv[3]
own = sys.argv[4] if len(sys.argv) > 4 else ""
dst = f"/verif/seeded/{seed}"
os.makedirs(dst, exist_ok=True)
shutil.copy(f"{out}/patch.diff", f"{dst}/patch.diff")
if os.path.isdir(f"{dst}/demo"): shutil.rmtree(f"{dst}/demo")
shutil.copytree(f"{out}/demo", f"{dst}/demo")
notes = open(f"{out}/notes.md").read()
open(f"{dst}/notes.md", "w").write(notes)
meta = {
 "property": seed[:3],
 "origin": "independent sub-agent given only the property text, a scratch worktree and one-sentence descriptions of the earlier seeds (fourth round)",
 "summary_and_needs": "see notes.md (written by the seeding agent: the change, what it needs to manifest, the demonstration command)",
 "confirmed": {"applies_to_head": True, "builds": True, "own_tests": own,
               "demo": "re-run by me with tools/seedverify.sh: passes without the change, fails with it"},
 "checks": {f"{seed[:3]} quick": verdict},
 "ran": ["demo in both directions", "VERIF_REPO=<seed worktree> /verif/tools/mutcheck %s patch.diff" % seed[:3]],
}
json.dump(meta, open(f"{dst}/meta.json", "w"), indent=1)
print("stored", dst)
