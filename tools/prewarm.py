#!/usr/bin/env python3
"""Compiles every harness test binary once (into a throw-away directory) to fill GOCACHE."""
import json, os, glob, subprocess, tempfile, shutil, sys
V = os.path.dirname(os.path.dirname(os.path.abspath(__file__)))
sys.path.insert(0, V)
import importlib.machinery, importlib.util
loader = importlib.machinery.SourceFileLoader("vcheck", os.path.join(V, "vcheck"))
spec = importlib.util.spec_from_loader("vcheck", loader); vc = importlib.util.module_from_spec(spec); loader.exec_module(vc)
for cj in sorted(glob.glob(os.path.join(V, "checks", "*", "check.json"))):
    cfg = json.load(open(cj))
    if cfg.get("disabled") or not cfg.get("ready"): continue
    cdir = os.path.dirname(cj)
    scratch = tempfile.mkdtemp(prefix="prewarm-", dir="/var/tmp")
    try:
        ovp = vc.build_overlay(cdir, cfg, scratch)
        if cfg.get("instrument"):
            subprocess.run([sys.executable, os.path.join(V, "engine_tools", "instrument.py"), json.dumps(cfg["instrument"]), scratch, ovp], env=vc.goenv(), cwd=V)
        for tc in (cfg.get("tests") or [{"pkg": cfg["pkg"]}]):
            cmd = ["go", "test", "-c", "-vet=off", "-overlay", ovp, "-tags", cfg.get("tags", "verif"), "-o", os.path.join(scratch, "t.test"), tc["pkg"]]
            r = subprocess.run(cmd, env=vc.goenv(), cwd=vc.REPO, stdout=subprocess.PIPE, stderr=subprocess.STDOUT, text=True)
            print(os.path.basename(cdir), tc["pkg"], "prewarm", "ok" if r.returncode == 0 else "FAILED\n" + r.stdout[-2000:])
        for name, bpkg in cfg.get("binaries", {}).items():
            subprocess.run(["go", "build", "-o", os.path.join(scratch, name), bpkg], env=vc.goenv(), cwd=vc.REPO)
    finally:
        shutil.rmtree(scratch, ignore_errors=True)
